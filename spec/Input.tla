-------------------------------- MODULE Input --------------------------------
(***************************************************************************)
(* C08, L2 - curtsies.input.Input as a state machine, one action per      *)
(* critical section of _send / _wait_for_read_ready_or_timeout, with the  *)
(* environment (terminal, other threads, clock) as separate actions so    *)
(* that TLC explores the races:                                           *)
(*   Arrive(bs)    bytes reach the kernel buffer of the tty ("wire")      *)
(*   Unget(bs)     unget_bytes                                             *)
(*   Trig(e)       event_trigger callback (same thread, between requests) *)
(*   Sched(e, w)   scheduled_event_trigger callback                        *)
(*   TSAppend(e) / TSWrite  the two halves of a thread-safe callback:     *)
(*                 queue append, then the wake-up pipe write               *)
(*   SigInt        SIGINT with sigint_event=True: handler appends, the    *)
(*                 signal wake-up fd becomes readable                      *)
(*   Tick          the clock advances                                      *)
(* Main thread:                                                            *)
(*   Start(T)      the queue checks, the scheduled-event check and        *)
(*                 find_key on buffered bytes; otherwise block in select   *)
(*   WakeStdin     select returned the tty: one read (<= ReadSize bytes), *)
(*                 then a key or a paste event                             *)
(*   WakeTS        select returned a thread-safe pipe: drain it, pop an   *)
(*                 interrupting event or recompute the remaining timeout   *)
(*                 from the original one                                   *)
(*   WakeSig       select returned the signal pipe: a SigIntEvent          *)
(*   Timeout       the select timed out: a due scheduled event or None     *)
(* Bytes are abstracted to *keys*: a wire item is one whole keypress      *)
(* encoding <<id, nbytes>>; reads never split an item here (byte-level    *)
(* splitting is explored by the harness's burst driver).                  *)
(***************************************************************************)
EXTENDS Base, TLC, Json
CONSTANTS MaxTime, ReadSize, PasteThreshold, MaxActions, Emit, Timeouts, Bursts

VARIABLES wire, buf, qE, qI, qS, sig, tsPipe, sigPipe, now, pc, deadline, remaining, t0, when0,
          delivered, nextId, hist, nact, reqT, hadSched, held, ready

vars == <<wire, buf, qE, qI, qS, sig, tsPipe, sigPipe, now, pc, deadline, remaining, t0, when0, delivered, nextId, hist, nact, reqT, hadSched, held, ready>>
view == <<wire, buf, qE, qI, qS, sig, tsPipe, sigPipe, now, pc, deadline, remaining, t0, when0, delivered, nextId, reqT, hadSched, held, ready>>
NoDeadline == 9999
None == -1

Init == /\ wire = <<>> /\ buf = <<>> /\ qE = <<>> /\ qI = <<>> /\ qS = <<>> /\ sig = <<>>
        /\ tsPipe = 0 /\ sigPipe = 0 /\ now = 0 /\ pc = "idle" /\ deadline = NoDeadline /\ remaining = None
        /\ t0 = 0 /\ when0 = None /\ delivered = <<>> /\ nextId = 1 /\ hist = <<>> /\ nact = 0 /\ reqT = None /\ hadSched = FALSE /\ held = <<>> /\ ready = FALSE

H(e) == hist' = Append(hist, e)
Count == nact' = nact + 1 /\ nact < MaxActions
Deliver(x) == delivered' = Append(delivered, x)
SumBytes(items) == SumSeq([k \in 1..Len(items) |-> items[k][2]])

(* ---------------- environment ---------------- *)
Arrive(n, nb) ==   \* n keypresses of nb bytes each arrive together
  /\ Count /\ wire' = wire \o [k \in 1..n |-> <<nextId + k - 1, nb>>] /\ nextId' = nextId + n
  /\ H([k |-> "arrive", n |-> n, nb |-> nb, id |-> nextId])
  /\ UNCHANGED <<reqT, hadSched, held, ready, buf, qE, qI, qS, sig, tsPipe, sigPipe, now, pc, deadline, remaining, t0, when0, delivered>>
Unget ==
  /\ pc = "idle" /\ Count /\ buf' = Append(buf, <<nextId, 1>>) /\ nextId' = nextId + 1
  /\ H([k |-> "unget", id |-> nextId])
  /\ UNCHANGED <<reqT, hadSched, held, ready, wire, qE, qI, qS, sig, tsPipe, sigPipe, now, pc, deadline, remaining, t0, when0, delivered>>
Trig ==
  /\ pc = "idle" /\ Count /\ qE' = Append(qE, nextId) /\ nextId' = nextId + 1
  /\ H([k |-> "trig", id |-> nextId])
  /\ UNCHANGED <<reqT, hadSched, held, ready, wire, buf, qI, qS, sig, tsPipe, sigPipe, now, pc, deadline, remaining, t0, when0, delivered>>
Sched(w) ==
  /\ pc = "idle" /\ Count /\ qS' = Append(qS, <<w, nextId>>) /\ nextId' = nextId + 1
  /\ H([k |-> "sched", id |-> nextId, when |-> w])
  /\ UNCHANGED <<reqT, hadSched, held, ready, wire, buf, qE, qI, sig, tsPipe, sigPipe, now, pc, deadline, remaining, t0, when0, delivered>>
TSAppend ==
  /\ Count /\ qI' = Append(qI, nextId) /\ nextId' = nextId + 1
  /\ H([k |-> "tsappend", id |-> nextId])
  /\ UNCHANGED <<reqT, hadSched, held, ready, wire, buf, qE, qS, sig, tsPipe, sigPipe, now, pc, deadline, remaining, t0, when0, delivered>>
TSWrite ==
  /\ Count /\ tsPipe' = tsPipe + 1
  /\ H([k |-> "tswrite"])
  /\ UNCHANGED <<reqT, hadSched, held, ready, wire, buf, qE, qI, qS, sig, sigPipe, now, pc, deadline, remaining, t0, when0, delivered, nextId>>
SigInt ==
  /\ Count /\ sig' = Append(sig, nextId) /\ nextId' = nextId + 1 /\ sigPipe' = sigPipe + 1
  /\ H([k |-> "sigint", id |-> nextId])
  /\ UNCHANGED <<reqT, hadSched, held, ready, wire, buf, qE, qI, qS, tsPipe, now, pc, deadline, remaining, t0, when0, delivered>>
Tick ==
  /\ now < MaxTime /\ now' = now + 1 /\ Count
  /\ H([k |-> "tick"])
  /\ UNCHANGED <<reqT, hadSched, held, ready, wire, buf, qE, qI, qS, sig, tsPipe, sigPipe, pc, deadline, remaining, t0, when0, delivered, nextId>>

(* ---------------- main thread ---------------- *)
SortedS(q) == SortSeq(q, LAMBDA a, b : a[1] < b[1] \/ (a[1] = b[1] /\ a[2] < b[2]))
Ret(x) == /\ Deliver(x) /\ pc' = "idle" /\ deadline' = NoDeadline /\ remaining' = None /\ when0' = None

Start(T) ==
  /\ pc = "idle" /\ Count /\ t0' = now /\ reqT' = T /\ hadSched' = (qS # <<>>) /\ UNCHANGED <<held, ready>>
  /\ H([k |-> "req", timeout |-> T])
  /\ IF sig # <<>> THEN       \* self.sigints.pop()  (the most recent one)
          /\ Ret([kind |-> "sigint", id |-> sig[Len(sig)], t |-> now]) /\ sig' = SubSeq(sig, 1, Len(sig) - 1)
          /\ UNCHANGED <<wire, buf, qE, qI, qS, tsPipe, sigPipe, now, nextId>>
     ELSE IF qE # <<>> THEN
          /\ Ret([kind |-> "event", id |-> Head(qE), t |-> now]) /\ qE' = Tail(qE)
          /\ UNCHANGED <<wire, buf, qI, qS, sig, tsPipe, sigPipe, now, nextId>>
     ELSE IF qI # <<>> THEN
          /\ Ret([kind |-> "event", id |-> Head(qI), t |-> now]) /\ qI' = Tail(qI)
          /\ UNCHANGED <<wire, buf, qE, qS, sig, tsPipe, sigPipe, now, nextId>>
     ELSE IF qS # <<>> /\ SortedS(qS)[1][1] < now THEN
          /\ Ret([kind |-> "sched", id |-> SortedS(qS)[1][2], t |-> now]) /\ qS' = Tail(SortedS(qS))
          /\ UNCHANGED <<wire, buf, qE, qI, sig, tsPipe, sigPipe, now, nextId>>
     ELSE IF buf # <<>> THEN      \* find_key on bytes left from an earlier read
          /\ Ret([kind |-> "key", id |-> Head(buf)[1], t |-> now]) /\ buf' = Tail(buf)
          /\ qS' = SortedS(qS)
          /\ UNCHANGED <<wire, qE, qI, sig, tsPipe, sigPipe, now, nextId>>
     ELSE /\ pc' = "select"
          /\ qS' = SortedS(qS)
          /\ when0' = IF qS = <<>> THEN None ELSE SortedS(qS)[1][1]
          /\ LET untilCheck == IF qS = <<>> THEN T
                               ELSE IF T = None THEN Max2(0, SortedS(qS)[1][1] - now)
                               ELSE Min2(Max2(0, SortedS(qS)[1][1] - now), T)
             IN /\ remaining' = untilCheck
                /\ deadline' = IF untilCheck = None THEN NoDeadline ELSE now + untilCheck
          /\ UNCHANGED <<wire, buf, qE, qI, sig, tsPipe, sigPipe, now, delivered, nextId>>

\* one os.read of at most ReadSize bytes: whole keypress items while they fit
RECURSIVE TakeItems(_, _)
TakeItems(w, room) == IF w = <<>> \/ Head(w)[2] > room THEN <<>> ELSE <<Head(w)>> \o TakeItems(Tail(w), room - Head(w)[2])

(* select() returned; _wait_for_read_ready_or_timeout hands back (stdin_ready, event) and _send goes on with its
   post-wait checks in a separate step (PostWait) - the clock may advance in between (the thread is descheduled) *)
ToPostWait(ev, rdy) == pc' = "postwait" /\ held' = ev /\ ready' = rdy

WakeStdin ==
  /\ pc = "select" /\ wire # <<>>
  /\ ToPostWait(<<>>, TRUE)
  /\ H([k |-> "wake", why |-> "stdin"])
  /\ UNCHANGED <<wire, buf, qE, qI, qS, sig, tsPipe, sigPipe, now, deadline, remaining, t0, when0, delivered, nextId, nact, reqT, hadSched>>

WakeSig ==
  /\ pc = "select" /\ wire = <<>> /\ sigPipe > 0 /\ sig # <<>>
  /\ sigPipe' = sigPipe - 1
  /\ ToPostWait(<<"sigint", sig[Len(sig)]>>, FALSE) /\ sig' = SubSeq(sig, 1, Len(sig) - 1)
  /\ H([k |-> "wake", why |-> "sig"])
  /\ UNCHANGED <<wire, buf, qE, qI, qS, tsPipe, now, deadline, remaining, t0, when0, delivered, nextId, nact, reqT, hadSched>>

WakeSigStale ==   \* a signal byte whose SigIntEvent was already returned: InterruptedError path, timeout recomputed
  /\ pc = "select" /\ wire = <<>> /\ sigPipe > 0 /\ sig = <<>>
  /\ sigPipe' = sigPipe - 1
  /\ H([k |-> "wake", why |-> "sigstale"])
  /\ remaining' = IF remaining = None THEN None ELSE Max2(0, deadline - now)
  /\ deadline' = IF remaining = None THEN NoDeadline ELSE Max2(now, deadline)
  /\ UNCHANGED <<wire, buf, qE, qI, qS, sig, tsPipe, now, pc, t0, when0, delivered, nextId, nact, reqT, hadSched, held, ready>>

WakeTS ==
  /\ pc = "select" /\ wire = <<>> /\ sigPipe = 0 /\ tsPipe > 0
  /\ tsPipe' = 0
  /\ H([k |-> "wake", why |-> IF qI # <<>> THEN "ts" ELSE "tsstale"])
  /\ IF qI # <<>>
     THEN /\ ToPostWait(<<"event", Head(qI)>>, FALSE) /\ qI' = Tail(qI)
          /\ UNCHANGED <<wire, buf, qE, qS, sig, sigPipe, now, deadline, remaining, t0, when0, delivered, nextId, nact, reqT, hadSched>>
     ELSE \* remaining_timeout = max(0, t0 + timeout - time.time()): the deadline t0 + timeout stays where it was
          /\ remaining' = IF remaining = None THEN None ELSE Max2(0, deadline - now)
          /\ deadline' = IF remaining = None THEN NoDeadline ELSE Max2(now, deadline)
          /\ UNCHANGED <<wire, buf, qE, qI, qS, sig, sigPipe, now, pc, t0, when0, delivered, nextId, nact, reqT, hadSched, held, ready>>

Timeout ==
  /\ pc = "select" /\ wire = <<>> /\ tsPipe = 0 /\ sigPipe = 0 /\ deadline # NoDeadline /\ now >= deadline
  /\ ToPostWait(<<>>, FALSE)
  /\ H([k |-> "wake", why |-> "timeout"])
  /\ UNCHANGED <<wire, buf, qE, qI, qS, sig, tsPipe, sigPipe, now, deadline, remaining, t0, when0, delivered, nextId, nact, reqT, hadSched>>

(* the rest of _send after the wait: an event handed back by the wait first, then a scheduled event that has become
   due, then None if stdin is not ready, else one read and a key or a paste *)
PostWait ==
  /\ pc = "postwait"
  /\ H([k |-> "post"])
  /\ held' = <<>> /\ ready' = FALSE
  /\ IF held # <<>> THEN
          /\ Ret([kind |-> held[1], id |-> held[2], t |-> now])
          /\ UNCHANGED <<wire, buf, qE, qI, qS, sig, tsPipe, sigPipe, now, t0, nextId, nact, reqT, hadSched>>
     ELSE IF qS # <<>> /\ when0 # None /\ when0 < now THEN
          /\ Ret([kind |-> "sched", id |-> qS[1][2], t |-> now]) /\ qS' = Tail(qS)
          /\ UNCHANGED <<wire, buf, qE, qI, sig, tsPipe, sigPipe, now, t0, nextId, nact, reqT, hadSched>>
     ELSE IF ~ready \/ wire = <<>> THEN
          /\ Ret([kind |-> "none", t |-> now, t0 |-> t0, T |-> reqT, sched |-> hadSched])
          /\ UNCHANGED <<wire, buf, qE, qI, qS, sig, tsPipe, sigPipe, now, t0, nextId, nact, reqT, hadSched>>
     ELSE LET got == TakeItems(wire, ReadSize)
              nbytes == SumBytes(got)
              rest == SubSeq(wire, Len(got) + 1, Len(wire))
          IN /\ IF PasteThreshold # None /\ nbytes > PasteThreshold
                THEN /\ Ret([kind |-> "paste", ids |-> [k \in 1..Len(wire) |-> wire[k][1]], t |-> now])
                     /\ wire' = <<>> /\ buf' = buf
                ELSE /\ Ret([kind |-> "key", id |-> got[1][1], t |-> now])
                     /\ wire' = rest /\ buf' = SubSeq(got, 2, Len(got))
             /\ UNCHANGED <<qE, qI, qS, sig, tsPipe, sigPipe, now, t0, nextId, nact, reqT, hadSched>>

Next ==
  \/ \E b \in Bursts : Arrive(b[1], b[2])
  \/ Unget \/ Trig \/ TSAppend \/ TSWrite \/ SigInt \/ Tick
  \/ \E w \in 0..MaxTime : Sched(w)
  \/ \E T \in Timeouts : Start(T)
  \/ WakeStdin \/ WakeTS \/ WakeSig \/ WakeSigStale \/ Timeout \/ PostWait
Spec == Init /\ [][Next]_vars

(* ---------------- L1 over the ghost `delivered` ---------------- *)
Ids(kind) == LET ds == SelectSeq(delivered, LAMBDA d : d.kind = kind) IN [k \in 1..Len(ds) |-> ds[k].id]
KeyIds == FlattenSeq([k \in 1..Len(delivered) |->
             IF delivered[k].kind = "key" THEN <<delivered[k].id>> ELSE IF delivered[k].kind = "paste" THEN delivered[k].ids ELSE <<>>])
AllIds == KeyIds \o Ids("event") \o Ids("sched") \o Ids("sigint")
ExactlyOnce == \A a, b \in 1..Len(AllIds) : a # b => AllIds[a] # AllIds[b]
\* ids are allocated in arrival / trigger order, so order preservation = increasing ids per source
Increasing(s) == \A a \in 1..Len(s) - 1 : s[a] < s[a + 1]
UngetIds == {hist[j].id : j \in {x \in 1..Len(hist) : hist[x].k = "unget"}}
\* bytes given back with unget_bytes were read from the tty earlier than anything still unread, so they
\* legitimately overtake wire bytes: order is preserved within each of the two sources
KeysInArrivalOrder == /\ Increasing(SelectSeq(KeyIds, LAMBDA x : x \in UngetIds))
                      /\ Increasing(SelectSeq(KeyIds, LAMBDA x : x \notin UngetIds))
SchedNotEarly == \A k \in 1..Len(delivered) : delivered[k].kind = "sched" =>
                    \E j \in 1..Len(hist) : hist[j].k = "sched" /\ hist[j].id = delivered[k].id /\ hist[j].when < delivered[k].t
NothingLostWhenIdle ==   \* conservation: everything injected is delivered or still pending
  Cardinality(SeqRange(AllIds)) + Len(wire) + Len(buf) + Len(qE) + Len(qI) + Len(qS) + Len(sig) + (IF held # <<>> THEN 1 ELSE 0) = nextId - 1
NoneNotEarly == \A k \in 1..Len(delivered) :
   (delivered[k].kind = "none" /\ ~delivered[k].sched) => delivered[k].t >= delivered[k].t0 + delivered[k].T
EmitBehaviour == (Emit /\ nact = MaxActions /\ pc = "idle") => PrintT(<<"BEH", ToJson(hist)>>)
=============================================================================

---------------------------- MODULE MC_StrMethods ----------------------------
(* Design-level model checking of C15/C16: the implementation-shaped split / splitlines / linesplit
   (StrMethods.tla) satisfy the reference semantics (PyStr.tla ranges, Wrap.tla greedy wrap) on every
   layout of <= MaxRuns runs of length 0..MaxLen over {x, space, newline, comma} x {plain, red}. *)
EXTENDS StrMethods, TLC
CONSTANTS MaxRuns, MaxLen
VARIABLES stage, f, q
Plain == <<0, 0, 0, 0, 0, 0, 0, 0>>
Red == <<2, 0, 0, 0, 0, 0, 0, 0>>
RECURSIVE TextsUpTo(_)
TextsUpTo(n) == IF n = 0 THEN {<<>>} ELSE LET P == TextsUpTo(n - 1) IN P \cup {Append(p, c) : p \in {x \in P : Len(x) = n - 1}, c \in {120, 32, 10, 44}}
RunsSet == {<<t, a>> : t \in TextsUpTo(MaxLen), a \in {Plain, Red}}
NoQ == [op |-> "none"]
Init == stage = 0 /\ f = <<>> /\ q = NoQ
Next ==
  \/ /\ q = NoQ /\ stage < MaxRuns /\ \E r \in RunsSet : f' = Append(f, r) /\ stage' = stage + 1 /\ q' = q
  \/ /\ q = NoQ /\ UNCHANGED <<stage, f>>
     /\ \/ \E c \in 1..4 : q' = [op |-> "linesplit", c |-> c]
        \/ \E sep \in {<<44>>, <<32>>, <<44, 32>>, <<120, 120>>} : q' = [op |-> "split", sep |-> sep]
        \/ \E ke \in 0..1 : q' = [op |-> "splitlines", ke |-> ke]
Spec == Init /\ [][Next]_<<stage, f, q>>
CellsOf(vs) == [j \in 1..Len(vs) |-> Cells(vs[j])]
LinesplitOk == q.op = "linesplit" => LinesplitVerdict(CellsOf(ImplLinesplit(f, q.c)), Cells(f), q.c) = "ok"
SplitOk == q.op = "split" => CellsOf(ImplSplit(f, q.sep)) = Ranges(Cells(f), SplitRanges(Text(f), q.sep))
SplitlinesOk == q.op = "splitlines" => CellsOf(ImplSplitlines(f, q.ke)) = Ranges(Cells(f), SplitlinesRanges(Text(f), q.ke))
=============================================================================

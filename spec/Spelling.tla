------------------------------ MODULE Spelling ------------------------------
(***************************************************************************)
(* C14 - what a formatting specification *means*.  A specification is a   *)
(* list of items [k, key, name, num, val]:                                *)
(*   k = "pos"    positional name            fmtstr(s, 'red')             *)
(*   k = "style"  style= keyword             fmtstr(s, style='on_blue')   *)
(*   k = "kwname" colour keyword with name   fmtstr(s, fg='red')          *)
(*   k = "kwnum"  colour keyword with number fmtstr(s, bg=44)             *)
(*   k = "bool"   boolean keyword            fmtstr(s, bold=True)         *)
(*   k = "func"   fmtfuncs helper            red(s)                       *)
(*   k = "junk"   anything else (non-string positional, unknown keyword)  *)
(* The tables are the specification's own (ECMA-48 numbers, the eight     *)
(* colour names and six style names of the documentation).               *)
(***************************************************************************)
EXTENDS Base

ColorNames == <<"black", "red", "green", "yellow", "blue", "magenta", "cyan", "gray">>
StyleNames == <<"bold", "dark", "italic", "underline", "blink", "invert">>
OnNames == [i \in 1..8 |-> "on_" \o ColorNames[i]]

IdxIn(names, n) == IF \E i \in 1..Len(names) : names[i] = n THEN CHOOSE i \in 1..Len(names) : names[i] = n ELSE 0

\* <<attribute index, value code>> or <<0, 0>> when the item names nothing valid
NameMeaning(n) ==
  IF IdxIn(ColorNames, n) # 0 THEN <<FG, IdxIn(ColorNames, n)>>
  ELSE IF IdxIn(OnNames, n) # 0 THEN <<BG, IdxIn(OnNames, n)>>
  ELSE IF IdxIn(StyleNames, n) # 0 THEN <<2 + IdxIn(StyleNames, n), 2>>
  ELSE <<0, 0>>

FuncMeaning(n) == IF n = "on_dark" THEN <<BG, 1>> ELSE NameMeaning(n)   \* on_dark: deprecated alias of on_black

ItemMeaning(it) ==
  IF it.k = "pos" \/ it.k = "style" THEN NameMeaning(it.name)
  ELSE IF it.k = "func" THEN FuncMeaning(it.name)
  ELSE IF it.k = "kwname" THEN
       IF it.key = "fg" /\ IdxIn(ColorNames, it.name) # 0 THEN <<FG, IdxIn(ColorNames, it.name)>>
       ELSE IF it.key = "bg" /\ IdxIn(ColorNames, it.name) # 0 THEN <<BG, IdxIn(ColorNames, it.name)>>
       ELSE <<0, 0>>
  ELSE IF it.k = "kwnum" THEN
       IF it.key = "fg" /\ it.num \in 30..37 THEN <<FG, it.num - 29>>
       ELSE IF it.key = "bg" /\ it.num \in 40..47 THEN <<BG, it.num - 39>>
       ELSE <<0, 0>>
  ELSE IF it.k = "bool" THEN
       IF IdxIn(StyleNames, it.key) # 0 THEN <<2 + IdxIn(StyleNames, it.key), 1 + it.val>> ELSE <<0, 0>>
  ELSE <<0, 0>>

\* a specification is invalid when an item means nothing or a colour is named twice
SpecInvalid(items) ==
  \/ \E j \in 1..Len(items) : ItemMeaning(items[j])[1] = 0
  \/ \E j, l \in 1..Len(items) : j < l /\ ItemMeaning(items[j])[1] = ItemMeaning(items[l])[1]
                                    /\ ItemMeaning(items[j])[1] \in {FG, BG}

\* the override map of a valid specification: m[i] = 0 (not named) or 1 + value code
SpecMap(items) ==
  [i \in AttIdx |-> IF \E j \in 1..Len(items) : ItemMeaning(items[j])[1] = i
                    THEN 1 + ItemMeaning(items[CHOOSE j \in 1..Len(items) :
                                  ItemMeaning(items[j])[1] = i /\ \A l \in j + 1..Len(items) : ItemMeaning(items[l])[1] # i])[2]
                    ELSE 0]
=============================================================================

--------------------------- MODULE FullscreenWin ---------------------------
(***************************************************************************)
(* C02.  L2: FullscreenWindow as coded in curtsies/window.py - the two    *)
(* loops of render_to_terminal expressed as a token generator over the    *)
(* row cache; L1: what the screen must show afterwards.                   *)
(*                                                                         *)
(* A row of an array is a run list (a str row is one unformatted run).    *)
(* cache : sequence over screen rows 1..n of <<tag, row>> with tag        *)
(*         "line" (the row last drawn there), "blank" (known blank) or     *)
(*         "none" (not in the cache).                                      *)
(***************************************************************************)
EXTENDS Term, ColorStr, FmtImpl

CUP(r, c) == <<"c", "", <<r + 1, c + 1>>, "", "H">>
ELtok == <<"c", "", <<>>, "", "K">>
EL1tok == <<"c", "", <<1>>, "", "K">>
HideTok == <<"c", "?", <<25>>, "", "l">>
NormalToks == << <<"c", "?", <<12>>, "", "l">>, <<"c", "?", <<25>>, "", "h">> >>
EnterFullscreenToks == << <<"c", "?", <<1049>>, "", "h">>, <<"c", "", <<22, 0, 0>>, "", "t">> >>
ExitFullscreenToks == << <<"c", "?", <<1049>>, "", "l">>, <<"c", "", <<23, 0, 0>>, "", "t">> >>

\* the screen cells a row occupies: one per narrow character, two per double-width character, none for a zero-width one
RowCells(row) ==
  LET cs == Cells(row)
  IN FlattenSeq([k \in 1..Len(cs) |-> IF W(cs[k][1]) = 2 THEN <<cs[k], <<0 - cs[k][1], cs[k][2]>>>>
                                       ELSE IF W(cs[k][1]) = 0 THEN <<>> ELSE <<cs[k]>>])
RowStr(row) == ImplStr(row)
ClipRow(row, w) == ImplSlice(row, 0, 1, w, 0)          \* row[:w]

NoCache == <<>>
CacheGet(cache, r) == IF r <= Len(cache) THEN cache[r] ELSE <<"none", <<>>>>
CacheEmpty(cache) == \A r \in 1..Len(cache) : cache[r][1] = "none"

(* FullscreenWindow.render_to_terminal(array, cursor_pos) on an h x w terminal.
   Returns <<tokens, new cache>>. *)
ImplFsRender(cache, arr, cp, h, w, hide) ==
  LET shown == Min2(Len(arr), h)
      line(r) == ClipRow(arr[r], w)
      rowToks(r) == IF CacheGet(cache, r)[1] = "line" /\ RowStr(CacheGet(cache, r)[2]) = RowStr(line(r)) THEN <<>>
                    ELSE <<CUP(r - 1, 0)>> \o RowStr(line(r)) \o (IF VLen(line(r)) < w THEN <<ELtok>> ELSE <<>>)
      blankToks(r) == IF ~CacheEmpty(cache) /\ CacheGet(cache, r)[1] = "none" THEN <<>>
                      ELSE <<CUP(r - 1, 0), ELtok, EL1tok>>
      body == FlattenSeq([r \in 1..shown |-> rowToks(r)]) \o FlattenSeq([k \in 1..(h - shown) |-> blankToks(shown + k)])
      newcache == [r \in 1..h |-> IF r <= shown THEN <<"line", line(r)>>
                                  ELSE IF ~CacheEmpty(cache) /\ CacheGet(cache, r)[1] = "none" THEN <<"none", <<>>>>
                                  ELSE <<"blank", <<>>>>]
  IN << (IF hide THEN <<>> ELSE <<HideTok>>) \o body \o <<CUP(cp[1], cp[2])>> \o (IF hide THEN <<>> ELSE NormalToks),
        newcache >>

(* L1: after a render the screen shows the array clipped to the terminal, the cursor is at
   cursor_pos and nothing scrolled. *)
FsExpected(arr, h, w) == ExpectedScr([r \in 1..Len(arr) |-> RowCells(arr[r])], h, w)
FsRenderVerdict(before, after, arr, cp) ==
  IF after.bad # before.bad THEN "MachineryUnknownControlFunction"
  ELSE IF after.scr # FsExpected(arr, after.h, after.w) THEN "ScreenShowsArray"
  ELSE IF after.scrolls # before.scrolls THEN "NeverScrolls"
  ELSE IF <<after.r, after.c>> # <<cp[1], cp[2]>> THEN "CursorAtCursorPos"
  ELSE "ok"
=============================================================================

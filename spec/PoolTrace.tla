------------------------------ MODULE PoolTrace ------------------------------
(***************************************************************************)
(* L3 - trace validation for C13.  One item = one straight-line program   *)
(* executed on real FmtStr objects: after every step the run lists of     *)
(* *all* live values (pool and side results) are recorded without         *)
(* touching any memo; Observe steps record the memoised views through the *)
(* object and the same views freshly computed from rebuilt runs; Mutate   *)
(* steps record whether the attempted in-place edit raised.               *)
(***************************************************************************)
EXTENDS PoolOps, ColorStr, Json, IOUtils, TLC
VARIABLES i, l, prev, v, conf

Traces == ndJsonDeserialize(IOEnv.TRACE_FILE)
tvars == <<i, l, prev, v, conf>>

Init == /\ i \in 1..Len(Traces) /\ l = 1
         /\ prev = [pool |-> Traces[i].seed, extras |-> <<>>]
         /\ v = <<"ok", "", 0>> /\ conf = "exact"
Fail(clause) == IF v[1] = "ok" /\ clause # "ok" THEN <<"fail", clause, l>> ELSE v

StepVerdict(p, e) ==
  IF ~IsPrefixOf(p.pool, e.pool) THEN "ImmutableOperandsAndEarlierResults"
  ELSE IF ~IsPrefixOf(p.extras, e.extras) THEN "ImmutableSideResults"
  ELSE IF e.op = "observe" THEN
       (IF e.obs # e.fresh THEN "MemoisedViewsFresh"
        ELSE IF e.obs.s # Text(p.pool[e.a]) \/ e.obs.n # VLen(p.pool[e.a]) THEN "ViewsMatchRuns"
        \* the terminal string (tokens) displays the value's runs, whatever was rendered before, in whatever object
        ELSE IF C01Verdict(p.pool[e.a], e.toks) # "ok" THEN "TerminalStringShowsRuns"
        ELSE "ok")
  ELSE IF e.op = "mutate" THEN (IF e.raised = 1 THEN "ok" ELSE "InPlaceEditMustRaise")
  ELSE IF e.exc # "" THEN "ok"      \* an operation may legitimately raise (e.g. width limits); nothing to compare
  ELSE IF e.robs # e.rfresh THEN "ResultViewsFresh"      \* memoised views of every new result vs views rebuilt from fresh runs
  ELSE IF HasModel(e.op) /\ Cells(e.res) # StepCells(p.pool, e) THEN "ResultOnSharedWarmOperands"
  ELSE "ok"

Next ==
  /\ l <= Len(Traces[i].ev)
  /\ l' = l + 1 /\ i' = i
  /\ LET e == Traces[i].ev[l]
     IN /\ v' = Fail(StepVerdict(prev, e))
        /\ prev' = [pool |-> e.pool, extras |-> e.extras]
        /\ conf' = conf
Spec == Init /\ [][Next]_tvars
Report == (l <= Len(Traces[i].ev) \/ (v[1] = "ok" /\ conf = "exact")) \/ PrintT(<<"V", i>> \o v \o <<conf>>)
=============================================================================

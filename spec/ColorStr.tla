------------------------------ MODULE ColorStr ------------------------------
(***************************************************************************)
(* C01.  L2: the token list str(f) is built from, as coded in             *)
(* Chunk.color_str / FmtStr.__str__ - attributes visited in sorted key    *)
(* order (bg, blink, bold, dark, fg, invert, italic, underline), explicit *)
(* False skipped, each wrapping what has been built so far with its open  *)
(* code and its closing code (0 for styles, 39 fg, 49 bg).                *)
(* L1: what a stream terminal shows when fed a token list.                *)
(***************************************************************************)
EXTENDS Sgr

WrapOrder == <<BG, BLINK, BOLD, DARK, FG, INVERT, ITALIC, UNDERLINE>>
CloseCode(i) == IF i = FG THEN 39 ELSE IF i = BG THEN 49 ELSE 0
Rendered(a, i) == IF i <= 2 THEN a[i] # 0 ELSE a[i] = 2

TextToks(t) == [k \in 1..Len(t) |-> <<"t", t[k]>>]

ImplColorStr(r) ==
  FoldLeft(LAMBDA acc, i :
             IF Rendered(r[2], i)
             THEN << <<"m", <<OpenCode(i, r[2][i])>>>> >> \o acc \o << <<"m", <<CloseCode(i)>>>> >>
             ELSE acc,
           TextToks(r[1]), WrapOrder)

ImplStr(f) == FlattenSeq([k \in 1..Len(f) |-> ImplColorStr(f[k])])

(* L1 clauses of C01 over an observed token list *)
OnlySgr(toks) == StreamRun(toks)[3] = 0
ShownExact(f, toks) == StreamRun(toks)[2] = Cells(f)
EndsDefault(toks) == StreamRun(toks)[1] = DefaultGr

\* lemma used for concatenation: every run is self-contained (starts and ends in the default state
\* whatever state it is entered in is irrelevant because it is always entered in the default state)
RunNeutral(r) == LET st == StreamRun(ImplColorStr(r))
                 IN st[1] = DefaultGr /\ st[2] = RunCells(r) /\ st[3] = 0

C01Verdict(f, toks) ==
  IF ~OnlySgr(toks) THEN "OnlySgr"
  ELSE IF ~ShownExact(f, toks) THEN "ShownExact"
  ELSE IF ~EndsDefault(toks) THEN "EndsDefault"
  ELSE "ok"
=============================================================================

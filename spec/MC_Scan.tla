------------------------------- MODULE MC_Scan -------------------------------
(* Design-level model checking of C17: for every string of length <= MaxLen over the 13-symbol alphabet the
   tokenizer model (Tokenizer.tla) yields a text that satisfies the L1 clauses of Scan.tla. *)
EXTENDS Tokenizer, TLC
CONSTANTS MaxLen
VARIABLES s
Alpha == {97, 10, 27, 155, 91, 49, 51, 59, 63, 32, 109, 72, 75}
Init == s = <<>>
Next == Len(s) < MaxLen /\ \E c \in Alpha : s' = Append(s, c)
Spec == Init /\ [][Next]_s
ParserModelMeetsC17 == C17Verdict(s, ImplAnyText(s)) = "ok"
StripKeepsMustKeep == OrdinaryCsi(s) => IsSubseq(MustKeep(s), Strip(s))
=============================================================================

------------------------------- MODULE MC_VDiff -------------------------------
(***************************************************************************)
(* Design-level model of C18(b): the cursor row moves arbitrarily between *)
(* calls (terminal taller/shorter), get_cursor_vertical_diff may be       *)
(* re-entered once while a query is in progress.  Checked: every call     *)
(* conserves movement  (top' - top) + returned = row' - lastRow,  the     *)
(* nested call returns 0, and top never leaves the range the loops allow. *)
(* Also model-checks the report parser on all short inputs.               *)
(***************************************************************************)
EXTENDS CursorQuery, TLC
CONSTANTS MaxRow, MaxSteps
VARIABLES top, last, steps, okc

Init == top \in -1..MaxRow /\ last \in -1..MaxRow /\ steps = 0 /\ okc = TRUE
Call(rows, nestedAt) ==
  LET m == ImplDiff(top, last, rows, nestedAt)
  IN /\ top' = m[1] /\ last' = m[3] /\ steps' = steps + 1
     /\ okc' = (/\ m[3] = rows[m[4]]
                /\ (m[1] - top) + m[2] = rows[m[4]] - (IF last = -1 THEN rows[1] ELSE last))
Next == /\ steps < MaxSteps
        /\ \/ \E r \in 0..MaxRow : Call(<<r>>, 0)
           \/ \E r1, r2 \in 0..MaxRow : Call(<<r1, r2>>, 1)
           \/ \E r1, r2, r3 \in 0..MaxRow : Call(<<r1, r2, r3>>, 1)      \* nested only during the first query: loop ends after the 2nd
Spec == Init /\ [][Next]_<<top, last, steps, okc>>
Conserved == okc
TopInRange == top >= -1
=============================================================================

----------------------------- MODULE KeyDecoder -----------------------------
(***************************************************************************)
(* C03 / C20 - the key decoder.                                           *)
(* The two key tables are *extracted from the working tree* at check time *)
(* (they define "recognised sequence" and "table name") and read from the *)
(* JSON file named by KEYTABLES:                                          *)
(*   curtsies, curses : sequences of <<byte sequence, name id>>           *)
(*   xnames           : <<<<b>>, id>> names curses mode gives to single    *)
(*                      undecodable bytes                                  *)
(* Everything derived from the tables (prefix set, maximum length) is     *)
(* recomputed here.  UTF-8 validity is the specification's own (RFC 3629).*)
(*                                                                         *)
(* Outcome codes:  0 more input needed, 1 failure (exception),            *)
(*   2 the bytes decoded as text, 4 the bytes themselves ("bytes" naming), *)
(*   10 + id  a table name.                                                *)
(***************************************************************************)
EXTENDS Base, Json, IOUtils, TLC

KT == JsonDeserialize(IOEnv.KEYTABLES)
Curtsies == KT.curtsies
Curses == KT.curses
XNames == KT.xnames
KeysOf(tab) == {tab[k][1] : k \in 1..Len(tab)}
CurtsiesKeys == KeysOf(Curtsies)
CursesKeys == KeysOf(Curses)
TableKeys == CurtsiesKeys \cup CursesKeys
NameIn(tab, seq) == tab[CHOOSE k \in 1..Len(tab) : tab[k][1] = seq][2]

\* proper prefixes of table sequences that start with ESC
KeyPrefixes == UNION {{SubSeq(k, 1, j) : j \in 1..Len(k) - 1} : k \in {x \in TableKeys : x[1] = 27}}
MaxLen == CHOOSE n \in 1..64 : (\E k \in TableKeys : Len(k) = n) /\ (\A k \in TableKeys : Len(k) <= n)

(* ---------------- UTF-8 (RFC 3629) ---------------- *)
Cont(b) == b \in 128..191
\* number of bytes of the character that starts with lead byte b (0: not a valid lead)
LeadLen(b) == IF b < 128 THEN 1 ELSE IF b \in 194..223 THEN 2 ELSE IF b \in 224..239 THEN 3 ELSE IF b \in 240..244 THEN 4 ELSE 0
SecondOk(l, b) == IF l = 224 THEN b \in 160..191 ELSE IF l = 237 THEN b \in 128..159
                  ELSE IF l = 240 THEN b \in 144..191 ELSE IF l = 244 THEN b \in 128..143 ELSE Cont(b)
\* s (non-empty) is a prefix (proper or not) of the encoding of one scalar value
IsCharPrefix(s) ==
  /\ LeadLen(s[1]) >= Len(s)
  /\ Len(s) >= 2 => SecondOk(s[1], s[2])
  /\ \A j \in 3..Len(s) : Cont(s[j])
IsChar(s) == s # <<>> /\ IsCharPrefix(s) /\ LeadLen(s[1]) = Len(s)
IsProperCharPrefix(s) == s # <<>> /\ IsCharPrefix(s) /\ LeadLen(s[1]) > Len(s)
RECURSIVE Utf8Valid(_)
Utf8Valid(s) == IF s = <<>> THEN TRUE
                ELSE LET n == LeadLen(s[1]) IN n # 0 /\ n <= Len(s) /\ IsChar(SubSeq(s, 1, n)) /\ Utf8Valid(SubSeq(s, n + 1, Len(s)))
CodePoint(s) == IF Len(s) = 1 THEN s[1]
                ELSE IF Len(s) = 2 THEN (s[1] - 192) * 64 + (s[2] - 128)
                ELSE IF Len(s) = 3 THEN (s[1] - 224) * 4096 + (s[2] - 128) * 64 + (s[3] - 128)
                ELSE (s[1] - 240) * 262144 + (s[2] - 128) * 4096 + (s[3] - 128) * 64 + (s[4] - 128)

Decodable(s, enc) == IF enc = "utf8" THEN Utf8Valid(s) ELSE IF enc = "ascii" THEN \A j \in 1..Len(s) : s[j] < 128 ELSE TRUE

(* ---------------- L2: get_key as coded ---------------- *)
\* could_be_unfinished_utf8: looks at the lead byte and the length only
ImplUnfinishedUtf8(s) ==
  LET o == s[1] IN
  \/ (o \in 192..223 /\ Len(s) < 2) \/ (o \in 224..239 /\ Len(s) < 3) \/ (o \in 240..247 /\ Len(s) < 4)
  \/ (o \in 248..251 /\ Len(s) < 5) \/ (o \in 252..253 /\ Len(s) < 6)
ImplUnfinished(s, enc) == IF Decodable(s, enc) THEN FALSE ELSE IF enc = "utf8" THEN ImplUnfinishedUtf8(s) ELSE IF enc = "ascii" THEN FALSE ELSE TRUE

ImplName(s, enc, mode) ==
  IF mode = "bytes" THEN 4
  ELSE IF mode = "curses" THEN
       (IF s \in CursesKeys THEN 10 + NameIn(Curses, s)
        ELSE IF Decodable(s, enc) THEN 2
        ELSE IF Len(s) = 1 THEN 10 + NameIn(XNames, s) ELSE 1)
  ELSE (IF s \in CurtsiesKeys THEN 10 + NameIn(Curtsies, s) ELSE IF Decodable(s, enc) THEN 2 ELSE 1)

ImplDecide(s, enc, mode, full) ==
  IF Len(s) > MaxLen THEN 1
  ELSE LET known == s \in CurtsiesKeys \/ s \in CursesKeys \/ Decodable(s, enc)
       IN IF full /\ known THEN ImplName(s, enc, mode)
          ELSE IF s \in KeyPrefixes \/ ImplUnfinished(s, enc) THEN 0
          ELSE IF known THEN ImplName(s, enc, mode)
          ELSE 1

(* ---------------- L1: what the statement allows at a key boundary ---------------- *)
\* s is the buffer since the last key boundary; returns the set of allowed outcome codes for
\* naming mode "curtsies"/"curses" (table name codes) - "bytes" naming must return 4 wherever a key is allowed.
IsValidCharIn(s, enc) == IF enc = "utf8" THEN IsChar(s) ELSE IF enc = "ascii" THEN Len(s) = 1 /\ s[1] < 128 ELSE Len(s) = 1
IsProperCharPrefixIn(s, enc) == enc = "utf8" /\ IsProperCharPrefix(s)
\* codes a key may be reported with: its table name in this naming mode; a sequence the mode's table
\* does not name comes back as its text (curses naming: or as the xNN name of an undecodable byte)
KeyCodes(s, enc, mode) ==
  IF mode = "bytes" THEN {4}
  ELSE IF mode = "curtsies" THEN (IF s \in CurtsiesKeys THEN {10 + NameIn(Curtsies, s)} ELSE {2})
  ELSE (IF s \in CursesKeys THEN {10 + NameIn(Curses, s)}
        ELSE IF Decodable(s, enc) THEN {2}                                  \* a character (or text) is reported as itself
        ELSE IF Len(s) = 1 /\ s \in KeysOf(XNames) THEN {10 + NameIn(XNames, s)}   \* an undecodable byte: its own xNN name
        ELSE {2})

\* under utf-8 the single-byte Meta keys 0x80-0xFF count as recognised only when they end a read
MetaCollision(s, enc) == enc = "utf8" /\ Len(s) = 1 /\ s[1] >= 128

Allowed(s, enc, mode, full) ==
  IF s \in TableKeys /\ ~MetaCollision(s, enc) THEN
       (IF s \in KeyPrefixes /\ ~full THEN {0} \cup KeyCodes(s, enc, mode)     \* may wait for the longer sequence
        ELSE KeyCodes(s, enc, mode))                                          \* whole sequence -> one key under its table name
  ELSE IF MetaCollision(s, enc) /\ s \in TableKeys THEN
       (IF full THEN KeyCodes(s, enc, mode)
        ELSE IF IsProperCharPrefix(s) THEN {0} ELSE {-1})
  ELSE IF IsValidCharIn(s, enc) THEN {IF mode = "bytes" THEN 4 ELSE 2}   \* a character is reported as itself
  ELSE IF IsProperCharPrefixIn(s, enc) THEN {0}                       \* keep asking, never fail
  ELSE IF s \in KeyPrefixes /\ ~full THEN {0}                         \* can still grow into a recognised sequence
  ELSE {-1}                                                          \* not reachable on valid input: nothing promised

AllowedOk(code, s, enc, mode, full) == LET A == Allowed(s, enc, mode, full) IN A = {-1} \/ code \in A
=============================================================================

------------------------------- MODULE Base -------------------------------
(***************************************************************************)
(* L0 - the domain shared by every curtsies specification module.         *)
(*                                                                         *)
(* text        : sequence of code points (Seq(Nat))                        *)
(* attributes  : 8-tuple <<fg, bg, bold, dark, italic, underline, blink,  *)
(*               invert>>; colours 0 = absent, 1..8 = black..gray;         *)
(*               styles 0 = absent, 1 = explicitly False, 2 = True         *)
(* run         : <<text, attributes>>   (a curtsies "Chunk")               *)
(* value       : sequence of runs       (a curtsies "FmtStr")              *)
(* cell        : <<code point, display attributes>> where display          *)
(*               attributes have styles in {0,1} (False and absent are     *)
(*               the same thing on a terminal)                             *)
(***************************************************************************)
EXTENDS Naturals, Integers, Sequences, FiniteSets, SequencesExt, Functions

FG == 1  BG == 2  BOLD == 3  DARK == 4  ITALIC == 5  UNDERLINE == 6  BLINK == 7  INVERT == 8
AttIdx == 1..8
StyleIdx == 3..8
NoAtts == <<0, 0, 0, 0, 0, 0, 0, 0>>
DefaultGr == <<0, 0, 0, 0, 0, 0, 0, 0>>

Min2(a, b) == IF a <= b THEN a ELSE b
Max2(a, b) == IF a >= b THEN a ELSE b

\* Display attributes of a run's attribute tuple: colours as they are,
\* styles 2 -> 1 (on), 0/1 -> 0 (off).
Disp(a) == [i \in AttIdx |-> IF i <= 2 THEN a[i] ELSE IF a[i] = 2 THEN 1 ELSE 0]

Take(s, n) == SubSeq(s, 1, Min2(Max2(n, 0), Len(s)))
Drop(s, n) == SubSeq(s, Min2(Max2(n, 0), Len(s)) + 1, Len(s))

RunText(r) == r[1]
RunAtts(r) == r[2]
RunCells(r) == [i \in 1..Len(r[1]) |-> <<r[1][i], Disp(r[2])>>]

\* The per-character (code point, display attributes) list of a value.
Cells(f) == FlattenSeq([k \in 1..Len(f) |-> RunCells(f[k])])
Text(f) == FlattenSeq([k \in 1..Len(f) |-> f[k][1]])
TextOfCells(cs) == [i \in 1..Len(cs) |-> cs[i][1]]
PlainCells(t) == [i \in 1..Len(t) |-> <<t[i], DefaultGr>>]
VLen(f) == Len(Text(f))

SumSeq(s) == FoldLeft(LAMBDA a, b : a + b, 0, s)

\* run start offsets: Divides(f)[k] = number of characters before run k; one extra entry = total
Divides(f) == [k \in 1..Len(f) + 1 |-> SumSeq([j \in 1..k - 1 |-> Len(f[j][1])])]

IsPrefixOf(a, b) == Len(a) <= Len(b) /\ SubSeq(b, 1, Len(a)) = a

\* subsequence test (a is obtained from b by deleting elements)
RECURSIVE IsSubseq(_, _)
IsSubseq(a, b) ==
  IF a = <<>> THEN TRUE
  ELSE IF b = <<>> THEN FALSE
  ELSE IF Head(a) = Head(b) THEN IsSubseq(Tail(a), Tail(b))
  ELSE IsSubseq(a, Tail(b))

SeqRange(s) == {s[i] : i \in 1..Len(s)}
=============================================================================

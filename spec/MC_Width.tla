------------------------------- MODULE MC_Width -------------------------------
(* Design-level model checking of C10/C11: for every layout of <= MaxRuns runs of length 0..MaxLen over
   {narrow a, double-width U+FF25, combining U+0301} x {plain, red}, every column count / column range,
   the implementation-shaped algorithms (Splitter.tla) satisfy the column model (Width.tla). *)
EXTENDS Splitter, TLC
CONSTANTS MaxRuns, MaxLen
VARIABLES stage, f, q

Plain == <<0, 0, 0, 0, 0, 0, 0, 0>>
Red == <<2, 0, 0, 0, 0, 0, 0, 0>>
RECURSIVE TextsUpTo(_)
TextsUpTo(n) == IF n = 0 THEN {<<>>} ELSE LET P == TextsUpTo(n - 1) IN P \cup {Append(p, c) : p \in {x \in P : Len(x) = n - 1}, c \in {97, 65317, 769}}
RunsSet == {<<t, a>> : t \in TextsUpTo(MaxLen), a \in {Plain, Red}}
NoQ == [op |-> "none"]
Init == stage = 0 /\ f = <<>> /\ q = NoQ
Next ==
  \/ /\ q = NoQ /\ stage < MaxRuns /\ \E r \in RunsSet : f' = Append(f, r)
     /\ stage' = stage + 1 /\ q' = q
  \/ /\ q = NoQ /\ UNCHANGED <<stage, f>>
     /\ LET w == CellsWidth(Cells(f))
        IN \/ \E c \in 2..5 : q' = [op |-> "wsplit", c |-> c]
           \/ \E a \in 0..w + 2 : \E b \in a..w + 2 : q' = [op |-> "wslice", a |-> a, b |-> b]
Spec == Init /\ [][Next]_<<stage, f, q>>

WsplitOk == q.op = "wsplit" => WrapVerdict([j \in 1..Len(ImplWsplit(f, q.c)) |-> Cells(ImplWsplit(f, q.c)[j])], Cells(f), q.c) = "ok"
WsliceOk == q.op = "wslice" =>
   LET rc == Cells(ImplWslice(f, q.a, q.b))
       strip(zs) == [k \in 1..Len(zs) |-> <<zs[k][1], Disp(zs[k][2])>>]
   IN /\ Cols(rc) = AbsWsliceCols(Cells(f), q.a, q.b) /\ IsSubseq(ZeroCells(rc), ZeroCells(Cells(f)))
      /\ IsSubseq(strip(ZeroMust(f, q.a, q.b)), ZeroCells(rc)) /\ IsSubseq(ZeroCells(rc), strip(ZeroMay(f, q.a, q.b)))
=============================================================================

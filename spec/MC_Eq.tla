-------------------------------- MODULE MC_Eq --------------------------------
(***************************************************************************)
(* Design-level model of C19.  Equality and hashing of FmtStr are defined *)
(* on the terminal string (ColorStr!ImplStr).  Checked over all pairs of  *)
(* layouts of <= 2 runs (texts of length 0..1, attributes incl. explicit  *)
(* False):                                                                 *)
(*  EqualStringsShowTheSame  equal terminal strings display the same cells *)
(*                           (equality never identifies two values that a  *)
(*                           terminal would show differently)              *)
(*  ReprRoundTrip            the repr model - per run: the attribute names *)
(*                           whose value is truthy, in sorted key order,   *)
(*                           wrapped around the text literal, runs joined  *)
(*                           by + - evaluates (fmtfuncs = apply one        *)
(*                           attribute) to a value with the same cells     *)
(***************************************************************************)
EXTENDS ColorStr, FmtAbs, TLC
CONSTANT UVals
VARIABLES x, y

AttsSet == {<<fg, bg, b, 0, 0, u, 0, 0>> : fg \in {0, 2}, bg \in {0, 5}, b \in 0..2, u \in UVals}
RunsSet == {<<t, a>> : t \in {<<>>, <<97>>}, a \in AttsSet}
Vals == {<<>>} \cup {<<r>> : r \in RunsSet} \cup {<<r, q>> : r \in RunsSet, q \in RunsSet}
Init == x = <<>> /\ y = <<>>
Next == \/ x = <<>> /\ y = <<>> /\ x' \in Vals \ {<<>>} /\ y' = y
        \/ x # <<>> /\ y = <<>> /\ y' \in Vals \ {<<>>} /\ x' = x
Spec == Init /\ [][Next]_<<x, y>>

EqualStringsShowTheSame == ImplStr(x) = ImplStr(y) => Cells(x) = Cells(y)

\* repr: names of the truthy attributes in sorted key order (bg, blink, bold, dark, fg, invert, italic, underline);
\* evaluation applies them innermost first: the result run carries exactly the truthy attributes
ReprNames(a) == SelectSeq(WrapOrder, LAMBDA i : Rendered(a, i))
EvalRepr(f) == [k \in 1..Len(f) |-> <<f[k][1], FoldLeft(LAMBDA acc, i : [acc EXCEPT ![i] = f[k][2][i]], NoAtts, ReprNames(f[k][2]))>>]
ReprRoundTrip == Cells(EvalRepr(x)) = Cells(x)
=============================================================================

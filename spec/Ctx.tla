--------------------------------- MODULE Ctx ---------------------------------
(***************************************************************************)
(* C12 - entering and leaving curtsies contexts.                          *)
(* Process-wide resources (abstract):                                     *)
(*   tty   : the terminal attributes of the input stream, as a sequence   *)
(*           of modifications applied to the initial attributes (<<>> =   *)
(*           initial; "cbreak", "nostartstop")                             *)
(*   nb    : O_NONBLOCK on the input stream                                *)
(*   sig   : who handles SIGINT (0 = the handler in place at the start,   *)
(*           n = Input number n's own handler)                             *)
(*   wake  : the signal wake-up descriptor (0 = none, n = Input n's pipe) *)
(*   fds   : number of open descriptors beyond those open at the start     *)
(*   vis, alt : cursor visible, alternate screen                           *)
(* stack : entered contexts, each with the snapshot taken when entering   *)
(* and what its __enter__ saved.  Raise unwinds the whole stack (a `with` *)
(* statement), exiting innermost first.                                    *)
(* L2: the enter/exit bodies as coded in input.py, window.py and          *)
(* termhelpers.py.  L1: Restored - after a context is left the resources  *)
(* equal the snapshot taken when it was entered.                           *)
(***************************************************************************)
EXTENDS Base, TLC, Json
CONSTANTS MaxDepth, MaxSteps, Emit, MainThread
VARIABLES res, stack, nextInput, lastOk, hist, steps

vars == <<res, stack, nextInput, lastOk, hist, steps>>
view == <<res, stack, nextInput, lastOk>>

Kinds == {"Input", "Fullscreen", "CursorAware", "Cbreak", "Nonblocking", "Termmode"}
Res0 == [tty |-> <<>>, nb |-> FALSE, sig |-> 0, wake |-> 0, fds |-> 0, vis |-> TRUE, alt |-> FALSE]
Init == /\ res \in {Res0, [Res0 EXCEPT !.nb = TRUE]}
        /\ stack = <<>> /\ nextInput = 1 /\ lastOk = "ok"
        /\ hist = << [k |-> "init", nb |-> IF res.nb THEN 1 ELSE 0, main |-> IF MainThread THEN 1 ELSE 0] >> /\ steps = 0

Opts(kind) ==
  IF kind = "Input" THEN [sigint : BOOLEAN, nostart : BOOLEAN, hide : {FALSE}, keep : {FALSE}]
  ELSE IF kind = "Fullscreen" THEN [sigint : {FALSE}, nostart : {FALSE}, hide : BOOLEAN, keep : {FALSE}]
  ELSE IF kind = "CursorAware" THEN [sigint : {FALSE}, nostart : {FALSE}, hide : BOOLEAN, keep : BOOLEAN]
  ELSE [sigint : {FALSE}, nostart : {FALSE}, hide : {FALSE}, keep : {FALSE}]

Cbreakd(t) == Append(t, "cbreak")
\* __enter__ of each kind: <<new resources, what it saved>>
EnterEffect(kind, o, r, n) ==
  IF kind = "Input" THEN
     LET t1 == Cbreakd(r.tty)
         t2 == IF o.nostart THEN Append(t1, "nostartstop") ELSE t1
     IN << [r EXCEPT !.tty = t2,
                     !.sig = IF o.sigint /\ MainThread THEN n ELSE r.sig,
                     !.wake = IF MainThread THEN n ELSE r.wake,
                     !.fds = IF MainThread THEN r.fds + 2 ELSE r.fds],
           [tty |-> r.tty, sig |-> r.sig, wake |-> r.wake, nb |-> r.nb] >>
  ELSE IF kind = "Fullscreen" THEN
     << [r EXCEPT !.alt = TRUE, !.vis = IF o.hide THEN FALSE ELSE r.vis], [tty |-> r.tty, sig |-> r.sig, wake |-> r.wake, nb |-> r.nb] >>
  ELSE IF kind = "CursorAware" THEN
     << [r EXCEPT !.tty = Cbreakd(r.tty), !.vis = IF o.hide THEN FALSE ELSE r.vis], [tty |-> r.tty, sig |-> r.sig, wake |-> r.wake, nb |-> r.nb] >>
  ELSE IF kind = "Cbreak" THEN << [r EXCEPT !.tty = Cbreakd(r.tty)], [tty |-> r.tty, sig |-> r.sig, wake |-> r.wake, nb |-> r.nb] >>
  ELSE IF kind = "Nonblocking" THEN << [r EXCEPT !.nb = TRUE], [tty |-> r.tty, sig |-> r.sig, wake |-> r.wake, nb |-> r.nb] >>
  ELSE << [r EXCEPT !.tty = <<"given">>], [tty |-> r.tty, sig |-> r.sig, wake |-> r.wake, nb |-> r.nb] >>

\* __exit__ of each kind, as coded
ExitEffect(f, r) ==
  LET kind == f.kind  o == f.opts  s == f.saved
  IN IF kind = "Input" THEN
        [r EXCEPT !.sig = IF o.sigint /\ MainThread THEN s.sig ELSE r.sig,
                  !.wake = IF MainThread THEN s.wake ELSE r.wake,          \* the previous wake-up fd is put back
                  !.fds = IF MainThread THEN r.fds - 2 ELSE r.fds,
                  !.tty = s.tty]
     ELSE IF kind = "Fullscreen" THEN [r EXCEPT !.alt = FALSE, !.vis = IF o.hide THEN TRUE ELSE r.vis]
     ELSE IF kind = "CursorAware" THEN [r EXCEPT !.tty = s.tty, !.vis = IF o.hide THEN TRUE ELSE r.vis]
     ELSE IF kind = "Cbreak" \/ kind = "Termmode" THEN [r EXCEPT !.tty = s.tty]
     ELSE [r EXCEPT !.nb = s.nb]

\* L1: what the statement promises once context f has been left with resources r
RestoredAfter(f, r) ==
  /\ r.tty = f.snap.tty /\ r.nb = f.snap.nb /\ r.sig = f.snap.sig /\ r.wake = f.snap.wake /\ r.fds = f.snap.fds
  /\ f.kind \in {"Fullscreen", "CursorAware"} => r.vis             \* the cursor is visible again
  /\ f.kind = "Fullscreen" => ~r.alt                               \* the alternate screen has been left

Enter(kind, o) ==
  /\ Len(stack) < MaxDepth
  \* at most one window context at a time (a window inside a window shares one cursor and one screen; the
  \* statement's "visible again" is about leaving *the* window)
  /\ ~(kind \in {"Fullscreen", "CursorAware"} /\ \E j \in 1..Len(stack) : stack[j].kind \in {"Fullscreen", "CursorAware"})
  /\ LET eff == EnterEffect(kind, o, res, nextInput)
     IN /\ res' = eff[1]
        /\ stack' = Append(stack, [kind |-> kind, opts |-> o, snap |-> res, saved |-> eff[2], id |-> nextInput])
  /\ nextInput' = nextInput + 1
  /\ hist' = Append(hist, [k |-> "enter", kind |-> kind, sigint |-> o.sigint, nostart |-> o.nostart, hide |-> o.hide, keep |-> o.keep])
  /\ lastOk' = lastOk

\* an operation in the body of the innermost context (renders, requests, triggers); transient effects only
\* a render has a shape: small / exactly the screen / taller than the screen (a CursorAwareWindow scrolls, the cursor's
\* line may leave the screen) / empty.  Every render hides and shows the cursor again when hide_cursor is off.
Op(name, shape) ==
  /\ stack # <<>>
  /\ (name = "render") = (shape # "")
  /\ LET top == stack[Len(stack)] IN
       \/ name = "render" /\ top.kind \in {"Fullscreen", "CursorAware"}
       \/ name \in {"request", "request_key", "request_paste", "trigger", "sched"} /\ top.kind = "Input"
  /\ hist' = Append(hist, [k |-> "op", name |-> name, shape |-> shape])
  /\ UNCHANGED <<res, stack, nextInput, lastOk>>

ExitTop(how) ==
  /\ stack # <<>>
  /\ LET f == stack[Len(stack)]
         r == ExitEffect(f, res)
     IN /\ res' = r
        /\ lastOk' = IF lastOk = "ok" /\ ~RestoredAfter(f, r) THEN "Restored" ELSE lastOk
  /\ stack' = SubSeq(stack, 1, Len(stack) - 1)
  /\ hist' = Append(hist, [k |-> how])
  /\ nextInput' = nextInput

Next ==
  /\ steps < MaxSteps /\ steps' = steps + 1
  /\ \/ \E kind \in Kinds : \E o \in Opts(kind) : Enter(kind, o)
     \/ \E name \in {"request", "request_key", "request_paste", "trigger", "sched"} : Op(name, "")
     \/ \E shape \in {"small", "full", "tall", "empty"} : Op("render", shape)
     \/ ExitTop("exit")
     \/ ExitTop("raise")          \* an exception leaves the innermost context; the next step continues unwinding or not
Spec == Init /\ [][Next]_vars

Restored == lastOk = "ok"
AllLeftMeansInitial == stack = <<>> => (res.tty = <<>> /\ res.sig = 0 /\ res.wake = 0 /\ res.fds = 0 /\ res.vis /\ ~res.alt)
EmitBehaviour == (Emit /\ steps = MaxSteps) => PrintT(<<"BEH", ToJson(hist)>>)
=============================================================================

-------------------------------- MODULE Pool --------------------------------
(***************************************************************************)
(* C13 - straight-line programs over a pool of FmtStr values.             *)
(* The pool holds abstract values (run lists); every action is one public *)
(* operation whose result is appended to the pool; Observe(i) reads the   *)
(* memoised views of a value; TryMutate(i, how) attempts an in-place edit.*)
(* Because results are *new* pool entries and no action rewrites an       *)
(* existing entry, Immutable holds by construction in the model - which   *)
(* is exactly the design: every FmtStr constructor copies its component   *)
(* list, runs are frozen.  The module is used (a) as a generator of       *)
(* programs with valid arguments (GenSpec, simulation), (b) as the        *)
(* reference for the result cells of each step in PoolTrace.              *)
(***************************************************************************)
EXTENDS PoolOps, TLC, Json
CONSTANTS MaxSteps, MaxPool, Emit
VARIABLES pool, hist

\* abstract successor pool for generation: modelled ops append their value (as one plain-attribute-free run
\* list is not needed - cells are enough to keep lengths right), others append nothing
AsRuns(cs) == [k \in 1..Len(cs) |-> << <<cs[k][1]>>, [i \in AttIdx |-> IF i <= 2 THEN cs[k][2][i] ELSE IF cs[k][2][i] = 1 THEN 2 ELSE 0] >>]

Init == pool = Seed /\ hist = <<>>
Do(e) == /\ hist' = Append(hist, e)
         /\ pool' = IF HasModel(e.op) /\ Len(pool) < MaxPool THEN Append(pool, AsRuns(StepCells(pool, e))) ELSE pool
E(op, a, b, n, m) == [op |-> op, a |-> a, b |-> b, n |-> n, m |-> m]

GenNext ==
  /\ Len(hist) < MaxSteps
  /\ \E a \in {RandomElement(1..Len(pool))}, b \in {RandomElement(1..Len(pool))} :
       LET la == VLen(pool[a]) IN
       \E n \in {RandomElement(0..la + 1)}, m \in {RandomElement(0..la + 2)}, k \in {RandomElement(1..4)},
          op \in {RandomElement({"add", "addstr", "raddstr", "mul", "slice", "splice", "insert", "append", "join", "withatts",
                                 "removeatts", "copy", "rewrap", "observe", "observe", "observe", "mutate"} \cup OtherOps)} :
         Do(IF op \in {"addstr", "raddstr", "join"} THEN E(op, a, b, k, 0)
            ELSE IF op = "withatts" THEN E(op, a, b, 1 + (k % 3), 0)
            ELSE IF op = "mul" THEN E(op, a, b, IF k = 1 THEN 0 - 1 - (n % 3) ELSE k - 2, 0)      \* -3..-1 (like str: empty), 0, 1, 2
            ELSE IF op = "splice" THEN E(op, a, b, Min2(n, m), Max2(n, m))
            ELSE IF op = "insert" \/ op = "setitem" THEN E(op, a, b, n, k)
            ELSE IF op = "mutate" THEN E(op, a, b, k, 0)
            ELSE E(op, a, b, n, m))
GenSpec == Init /\ [][GenNext]_<<pool, hist>>

\* exhaustive variant for small depth: every op with every operand pair and a few arguments
Next ==
  /\ Len(hist) < MaxSteps
  /\ \E a \in 1..Len(pool), b \in 1..Len(pool) :
       \/ \E op \in {"add", "append", "copy", "rewrap", "removeatts", "observe", "split", "ljust", "upper"} : Do(E(op, a, b, 0, 0))
       \/ \E k \in 1..3 : \E op \in {"addstr", "raddstr", "withatts", "join", "mutate", "setitem"} : Do(E(op, a, b, k, 0))
       \/ \E k \in {0 - 1, 0, 2} : Do(E("mul", a, b, k, 0))
       \/ \E n \in {0, 1}, m \in {1, VLen(pool[a])} : n <= m /\ (Do(E("slice", a, b, n, m)) \/ Do(E("splice", a, b, n, m)))
Spec == Init /\ [][Next]_<<pool, hist>>

\* the design-level statement of immutability: an action only ever appends to the pool
AppendOnly == [][IsPrefixOf(pool, pool')]_<<pool, hist>>
EmitProgram == (Emit /\ Len(hist) = MaxSteps) => PrintT(<<"BEH", ToJson(hist)>>)
=============================================================================

----------------------------- MODULE StrMethods -----------------------------
(***************************************************************************)
(* C15 / C16 / C14, L2 - the str-like methods of FmtStr as coded:         *)
(*  ImplShared      shared_atts: attributes of the first non-empty run     *)
(*                  that every non-empty run has with the same value       *)
(*  ImplSplit       split(sep): slices between the non-overlapping matches *)
(*  ImplSplitlines  splitlines(keepends)                                   *)
(*  ImplLjust/Rjust ljust / rjust without and with a fill character        *)
(*  ImplLinesplit   linesplit(string, columns): words/spaces pairing and   *)
(*                  the packing loop                                        *)
(***************************************************************************)
EXTENDS Wrap, FmtImpl

NonEmpty(f) == SelectSeq(f, LAMBDA r : r[1] # <<>>)
ImplShared(f) ==
  LET ne == NonEmpty(f)
      first == IF ne # <<>> THEN ne[1][2] ELSE IF f # <<>> THEN f[1][2] ELSE NoAtts
  IN [i \in AttIdx |-> IF first[i] # 0 /\ \A k \in 1..Len(ne) : ne[k][2][i] = first[i] THEN first[i] ELSE 0]

ImplSplit(f, sep) ==
  LET rs == SplitRanges(Text(f), sep) IN [j \in 1..Len(rs) |-> ImplGetRange(f, rs[j][1], rs[j][2])]
\* as coded since fix 78e13de: the plain text's own splitlines decides the ranges, each is sliced out with __getitem__
ImplSplitlines(f, keepends) ==
  LET rs == SplitlinesRanges(Text(f), keepends) IN [j \in 1..Len(rs) |-> ImplGetRange(f, rs[j][1], rs[j][2])]

RemoveBg(f) == [k \in 1..Len(f) |-> <<f[k][1], [f[k][2] EXCEPT ![BG] = 0]>>]
PadRun(n, atts) == << <<[j \in 1..n |-> 32], atts>> >>
BgOnly(a) == [i \in AttIdx |-> IF i = BG THEN a[i] ELSE 0]
ImplLjust(f, width) ==
  LET n == width - VLen(f)  sh == ImplShared(f)
  IN IF sh[BG] # 0 THEN (IF n > 0 THEN f \o PadRun(n, BgOnly(sh)) ELSE f)
     ELSE (IF n > 0 THEN RemoveBg(f) \o PadRun(n, sh) ELSE RemoveBg(f))
ImplRjust(f, width) ==
  LET n == width - VLen(f)  sh == ImplShared(f)
  IN IF sh[BG] # 0 THEN (IF n > 0 THEN PadRun(n, BgOnly(sh)) \o f ELSE f)
     ELSE (IF n > 0 THEN PadRun(n, sh) \o RemoveBg(f) ELSE RemoveBg(f))

(* ---- linesplit ---- *)
\* maximal whitespace stretches as <<start, end>> (0-based, half-open) over the text
RECURSIVE WsMatches(_, _)
WsMatches(cs, i) ==
  IF i > Len(cs) THEN <<>>
  ELSE IF IsSp(cs[i]) THEN LET n == PrefixLen(cs, i, TRUE) IN << <<i - 1, i - 1 + n>> >> \o WsMatches(cs, i + n)
  ELSE WsMatches(cs, i + PrefixLen(cs, i, FALSE))
WordLines(word, columns) ==
  [i \in 1..((VLen(word) - 1) \div columns + 1) |-> ImplGetRange(word, columns * (i - 1), columns * i)]
ImplLinesplit(f, columns) ==
  LET cs == Cells(f)
      n == Len(cs)
      ms == WsMatches(cs, 1)
      spaces == [j \in 1..Len(SelectSeq(ms, LAMBDA m : m[1] # 0 /\ m[2] # n)) |->
                   LET m == SelectSeq(ms, LAMBDA x : x[1] # 0 /\ x[2] # n)[j] IN ImplGetRange(f, m[1], m[2])]
      bounds == [j \in 1..Len(ms) + 1 |-> << IF j = 1 THEN 0 ELSE ms[j - 1][2], IF j = Len(ms) + 1 THEN n ELSE ms[j][1] >>]
      wb == SelectSeq(bounds, LAMBDA b : b[1] # b[2])
      words == [j \in 1..Len(wb) |-> ImplGetRange(f, wb[j][1], wb[j][2])]
      step(lines, j) ==      \* j-th further word (words[j + 1]) with spaces[j]
        LET word == words[j + 1]
            last == lines[Len(lines)]
        IN IF VLen(last) + VLen(word) < columns
           THEN [lines EXCEPT ![Len(lines)] = last \o << <<<<32>>, ImplShared(spaces[j])>> >> \o word]
           ELSE lines \o WordLines(word, columns)
  IN IF words = <<>> THEN <<>>
     ELSE FoldLeft(step, WordLines(words[1], columns), [j \in 1..Min2(Len(words) - 1, Len(spaces)) |-> j])
=============================================================================

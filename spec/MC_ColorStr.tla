---------------------------- MODULE MC_ColorStr ----------------------------
(* Design-level model checking of C01: ImplStr (L2) satisfies the L1 clauses *)
(* for every attribute record (59,049 of them, explicit False included) and  *)
(* for every sequence of up to MaxRuns runs over a representative subset.    *)
(* Two-stage choice (colours first, the rest second) only so that TLC's      *)
(* workers share the enumeration.                                            *)
EXTENDS ColorStr, TLC
CONSTANTS MaxRuns, StyleVals
VARIABLES stage, f

Texts == {<<>>, <<97>>, <<97, 10>>}
SubAtts == {<<fg, bg, b, 0, 0, u, 0, v>> : fg \in {0, 2}, bg \in {0, 5}, b \in 0..2, u \in {0, 2}, v \in {0, 1}}
SubRuns == {<<t, a>> : t \in {<<>>, <<98>>}, a \in SubAtts}

Init == stage = 0 /\ f = <<>>
Next ==
  \/ /\ stage = 0
     /\ stage' = 1
     /\ \E fg \in 0..8, bg \in 0..8 : f' = << <<<<>>, <<fg, bg, 0, 0, 0, 0, 0, 0>>>> >>
  \/ /\ stage = 1
     /\ stage' = 2
     /\ \E t \in Texts, b \in StyleVals, d \in StyleVals, i \in StyleVals, u \in StyleVals, k \in StyleVals, v \in StyleVals :
          f' = << <<t, <<f[1][2][1], f[1][2][2], b, d, i, u, k, v>>>> >>
  \/ /\ stage = 0
     /\ stage' = 3
     /\ \E r \in SubRuns : f' = <<r>>
  \/ /\ stage >= 3 /\ stage < 2 + MaxRuns
     /\ stage' = stage + 1
     /\ \E r \in SubRuns : f' = Append(f, r)
Spec == Init /\ [][Next]_<<stage, f>>

InvRunNeutral == stage = 2 => RunNeutral(f[1])
InvOnlySgr == OnlySgr(ImplStr(f))
InvShownExact == ShownExact(f, ImplStr(f))
InvEndsDefault == EndsDefault(ImplStr(f))
=============================================================================

---------------------------- MODULE CursorQuery ----------------------------
(***************************************************************************)
(* C18.  (a) get_cursor_position: the input stream holds                   *)
(*   extra \o report \o trailing   (report = CSI row ; col R, 7- or 8-bit) *)
(* and reads may fail with OSError any number of times.                   *)
(* L1: returns (row-1, col-1), hands exactly `extra` to the callback (or  *)
(* raises ValueError when there is none and extra is not empty), and      *)
(* consumes nothing after the report.                                     *)
(* L2: the reading loop as coded - one character per successful read,     *)
(* after each one the response so far is searched for a report; the match *)
(* is the *last* CSI digits ; digits R it contains.                       *)
(* (b) get_cursor_vertical_diff: L2 = the two bookkeeping loops and the   *)
(* re-query loop; L1 = conservation of movement.                          *)
(***************************************************************************)
EXTENDS Base

IsDig(c) == c \in 48..57
RECURSIVE DigitsBack(_, _)
\* number of consecutive digits ending at position j (going backwards)
DigitsBack(s, j) == IF j >= 1 /\ IsDig(s[j]) THEN 1 + DigitsBack(s, j - 1) ELSE 0

\* if s ends with CSI d+ ; d+ R return <<start index of CSI, row digits, col digits>> else <<0,..>>
ReportSuffix(s) ==
  LET n == Len(s)
  IN IF n < 1 \/ s[n] # 82 THEN <<0, <<>>, <<>>>>
     ELSE LET dc == DigitsBack(s, n - 1)
              semi == n - 1 - dc
          IN IF dc = 0 \/ semi < 1 \/ s[semi] # 59 THEN <<0, <<>>, <<>>>>
             ELSE LET dr == DigitsBack(s, semi - 1)
                      pre == semi - 1 - dr      \* position of the last byte of the introducer
                  IN IF dr = 0 \/ pre < 1 THEN <<0, <<>>, <<>>>>
                     ELSE IF s[pre] = 155 THEN <<pre, SubSeq(s, pre + 1, semi - 1), SubSeq(s, semi + 1, n - 1)>>
                     ELSE IF s[pre] = 91 /\ pre >= 2 /\ s[pre - 1] = 27 THEN <<pre - 1, SubSeq(s, pre + 1, semi - 1), SubSeq(s, semi + 1, n - 1)>>
                     ELSE <<0, <<>>, <<>>>>

RECURSIVE NumOf(_)
NumOf(ds) == IF ds = <<>> THEN 0 ELSE NumOf(SubSeq(ds, 1, Len(ds) - 1)) * 10 + (ds[Len(ds)] - 48)

\* L2: consume `input` one character at a time: <<row, col, extra, consumed>> (consumed = 0: no report found)
RECURSIVE ReadLoop(_, _)
ReadLoop(input, k) ==
  IF k > Len(input) THEN <<0, 0, <<>>, 0>>
  ELSE LET rs == ReportSuffix(SubSeq(input, 1, k))
       IN IF rs[1] # 0 THEN <<NumOf(rs[2]) - 1, NumOf(rs[3]) - 1, SubSeq(input, 1, rs[1] - 1), k>>
          ELSE ReadLoop(input, k + 1)
ImplQuery(input) == ReadLoop(input, 1)


\* the bytes a character of the input stream arrived as (RFC 3629 for a utf-8 stream; one byte for latin-1)
Utf8Bytes(cp) == IF cp < 128 THEN <<cp>>
                 ELSE IF cp < 2048 THEN <<192 + (cp \div 64), 128 + (cp % 64)>>
                 ELSE IF cp < 65536 THEN <<224 + (cp \div 4096), 128 + ((cp \div 64) % 64), 128 + (cp % 64)>>
                 ELSE <<240 + (cp \div 262144), 128 + ((cp \div 4096) % 64), 128 + ((cp \div 64) % 64), 128 + (cp % 64)>>
ArrivedAs(chars, encoding) == IF encoding = "utf-8" THEN FlattenSeq([k \in 1..Len(chars) |-> Utf8Bytes(chars[k])]) ELSE chars

(* L1 verdict.  e.extra, e.report (bytes), e.row, e.col (1-based as reported), e.trailing; observed:
   e.k ("ok"/"exc"), e.t, e.ret, e.calls (sequence of byte strings given to the callback), e.rest (unread input) *)
QueryVerdict(e) ==
  IF e.cb = 0 /\ e.extra # <<>> THEN
       (IF e.k = "exc" /\ e.t = "ValueError" THEN "ok" ELSE "NoCallbackMustRaiseValueError")
  ELSE IF e.k # "ok" THEN "QueryRaised"
  ELSE IF e.ret # <<e.row - 1, e.col - 1>> THEN "ReturnsReportedPosition"
  ELSE IF e.extra = <<>> /\ e.calls # <<>> THEN "CallbackWithoutExtraBytes"
  ELSE IF e.extra # <<>> /\ FlattenSeq(e.calls) # ArrivedAs(e.extra, e.enc) THEN "CallbackGetsExactlyPrecedingBytes"
  ELSE IF e.rest # e.trailing THEN "ConsumesNothingAfterReport"
  ELSE "ok"

(* ---------------- (b) vertical diff ---------------- *)
\* one _get_cursor_vertical_diff_once: <<new top, returned dy, new last row>>; last = -1 means None
RECURSIVE AbsorbDown(_, _), AbsorbUp(_, _)
AbsorbDown(top, dy) == IF top > -1 /\ dy > 0 THEN AbsorbDown(top + 1, dy - 1) ELSE <<top, dy>>
AbsorbUp(top, dy) == IF top > 1 /\ dy < 0 THEN AbsorbUp(top - 1, dy + 1) ELSE <<top, dy>>
ImplDiffOnce(top, last, row) ==
  IF last = -1 THEN <<top, 0, row>>
  ELSE LET a == AbsorbDown(top, row - last)
           b == AbsorbUp(a[1], a[2])
       IN <<b[1], b[2], row>>

\* the whole call: rows = the rows reported by the successive queries; a nested call arrived during
\* query number nestedAt (0 = none) and makes the loop go round once more
RECURSIVE ImplDiffLoop(_, _, _, _, _, _)
ImplDiffLoop(top, last, rows, q, nestedAt, acc) ==
  LET o == ImplDiffOnce(top, last, rows[q])
  IN IF q = nestedAt /\ q < Len(rows) THEN ImplDiffLoop(o[1], o[3], rows, q + 1, nestedAt, acc + o[2])
     ELSE <<o[1], acc + o[2], o[3], q>>
ImplDiff(top, last, rows, nestedAt) == ImplDiffLoop(top, last, rows, 1, nestedAt, 0)

DiffVerdict(e) ==
  LET used == e.queries
      final == IF used >= 1 /\ used <= Len(e.rows) THEN e.rows[used] ELSE -99
  IN IF e.k # "ok" THEN "DiffRaised"
     ELSE IF e.nested # 0 /\ e.nestedret # 0 THEN "NestedCallMustReturnZero"
     ELSE IF final = -99 THEN "MachineryQueryCount"
     ELSE IF e.last1 # final THEN "RemembersObservedRow"
     \* before the first render nothing is known: movement counts from the first observed row
     ELSE IF (e.top1 - e.top0) + e.ret + e.nestedret # final - (IF e.last0 = -1 THEN e.rows[1] ELSE e.last0) THEN "MovementConserved"
     ELSE "ok"
=============================================================================

----------------------------- MODULE CursorWin -----------------------------
(***************************************************************************)
(* C07.  L2: CursorAwareWindow.render_to_terminal as coded (fit loop,     *)
(* blank loop, one scroll_down per surplus line with top_usable_row /     *)
(* offscreen bookkeeping and cache re-keying); L1: what the terminal -    *)
(* screen plus scrollback - must look like afterwards.                    *)
(*                                                                         *)
(* cache = <<rows, extra>>: rows is a sequence over screen rows 1..h of   *)
(* <<tag, row>> (tag "line" / "blank" / "none"), extra = the dict also    *)
(* holds keys of rows that have scrolled off the top (negative keys).     *)
(***************************************************************************)
EXTENDS FullscreenWin

CaNoCache == << <<>>, FALSE >>
CaGet(cache, r) == IF r >= 1 /\ r <= Len(cache[1]) THEN cache[1][r] ELSE <<"none", <<>>>>
CaEmpty(cache) == ~cache[2] /\ \A r \in 1..Len(cache[1]) : cache[1][r][1] = "none"

ScrollDownToks == << <<"e", "7">>, <<"c", "", <<1000001, 1>>, "", "H">>, <<"t", 10>>, <<"e", "8">> >>

(* one iteration of the scroll loop: st = <<tokens, rows cache (seq 1..h), extra, top, offscreen>> *)
CaScrollStep(st, line, h) ==
  LET shifted == [r \in 1..h |-> IF r < h THEN st[2][r + 1] ELSE <<"line", line>>]
      lost == st[2][1][1] # "none"
  IN << st[1] \o ScrollDownToks \o <<CUP(h - 1, 0)>> \o RowStr(line),
        shifted, st[3] \/ lost,
        IF st[4] > 0 THEN st[4] - 1 ELSE st[4],
        IF st[4] > 0 THEN st[5] ELSE st[5] + 1 >>

(* returns <<tokens, new cache, new top, returned value>> *)
ImplCaRender(cache, top, arr, cp, h, w, hide) ==
  LET n == Len(arr)
      avail == Max2(h - top, 0)
      shared == Min2(n, avail)
      rowToks(k) ==    \* k = 1..shared, screen row (1-based) top + k
        LET r == top + k
        IN IF CaGet(cache, r)[1] = "line" /\ RowStr(CaGet(cache, r)[2]) = RowStr(arr[k]) THEN <<>>
           ELSE <<CUP(r - 1, 0)>> \o RowStr(arr[k]) \o (IF VLen(arr[k]) < w THEN <<ELtok>> ELSE <<>>)
      skipBlank(r) == ~CaEmpty(cache) /\ CaGet(cache, r)[1] = "none"
      blankToks(r) == IF skipBlank(r) THEN <<>> ELSE <<CUP(r - 1, 0), ELtok, EL1tok>>
      body1 == FlattenSeq([k \in 1..shared |-> rowToks(k)])
               \o FlattenSeq([j \in 1..(avail - shared) |-> blankToks(top + shared + j)])
      rows1 == [r \in 1..h |-> IF r > top /\ r <= top + shared THEN <<"line", arr[r - top]>>
                               ELSE IF r > top + shared /\ ~skipBlank(r) THEN <<"blank", <<>>>>
                               ELSE <<"none", <<>>>>]
      st == FoldLeft(LAMBDA s, line : CaScrollStep(s, line, h), <<body1, rows1, FALSE, top, 0>>, SubSeq(arr, shared + 1, n))
      newtop == st[4]
      ret == st[5]
      crow == Max2(0, cp[1] - ret + newtop)
  IN << (IF hide THEN <<>> ELSE <<HideTok>>) \o st[1] \o <<CUP(crow, cp[2])>> \o (IF hide THEN <<>> ELSE NormalToks),
        <<st[2], st[3]>>, newtop, ret >>

(* ---------------- L1 ---------------- *)
AllLines(t) == t.sb \o [r \in 1..t.h |-> t.scr[r]]
PadRow(cells, w) == [c \in 1..w |-> IF c <= Len(cells) THEN cells[c] ELSE Blank]
BlankLine(w) == [c \in 1..w |-> Blank]

CaScroll(n, h, top) == Max2(0, n - (h - top))
CaNewTop(n, h, top) == Max2(0, top - CaScroll(n, h, top))
CaRet(n, h, top) == CaScroll(n, h, top) - (top - CaNewTop(n, h, top))

\* before/after: terminal values; top: top usable row before the render (0-based)
CaRenderVerdict(before, after, top, arr, cp, ret) ==
  LET n == Len(arr)
      h == before.h  w == before.w
      scroll == CaScroll(n, h, top)
      newtop == CaNewTop(n, h, top)
      kept == SubSeq(AllLines(before), 1, Len(before.sb) + top)
      expect == kept \o [k \in 1..n |-> PadRow(RowCells(arr[k]), w)]
      lines == AllLines(after)
  IN IF after.bad # before.bad THEN "MachineryUnknownControlFunction"
     ELSE IF ~IsPrefixOf(kept, lines) THEN "HistoryIntact"
     ELSE IF after.scrolls - before.scrolls # scroll THEN "ScrollsExactlyWhatDoesNotFit"
     ELSE IF ~IsPrefixOf(expect, lines) THEN "ShowsArrayFromTopUsableRow"
     ELSE IF \E k \in Len(expect) + 1..Len(lines) : lines[k] # BlankLine(w) THEN "RowsBelowBlank"
     ELSE IF ret # CaRet(n, h, top) THEN "ReturnsRowsPushedOffTop"
     ELSE IF <<after.r, after.c>> # <<Max2(0, cp[1] - CaRet(n, h, top) + newtop), cp[2]>> THEN "CursorAtCursorPos"
     ELSE "ok"
=============================================================================

---------------------------- MODULE ExtrasTrace ----------------------------
(***************************************************************************)
(* L3 - trace validation of recorded calls of behaviour outside the listed *)
(* properties (see Extras.tla); same shape as FmtTrace.                    *)
(***************************************************************************)
EXTENDS Extras, Json, IOUtils, TLC
VARIABLES i, v

Events == ndJsonDeserialize(IOEnv.TRACE_FILE)

Init == i \in 1..Len(Events) /\ v = <<"todo">>
Next == v = <<"todo">> /\ v' = JudgeExtra(Events[i]) /\ UNCHANGED i
Spec == Init /\ [][Next]_<<i, v>>

Report == (v = <<"todo">> \/ v = <<"ok", "", "exact">>) \/ PrintT(<<"V", i>> \o v)
=============================================================================

------------------------------- MODULE Extras -------------------------------
(***************************************************************************)
(* Behaviour outside the twenty listed properties, specified as coded and  *)
(* bound to the code by exact conformance of recorded calls (./check       *)
(* extras).  No property is decided here; a mismatch is reported as        *)
(* SPEC-DRIFT, never as a VIOLATION.                                       *)
(*                                                                         *)
(*  text2array   BaseWindow.array_from_text_rc(msg, rows, columns)         *)
(*  fsdiff       FSArray.diff(a, b, ignore_formatting)                     *)
(*  ppevent      events.pp_event(name) for key names of the two tables     *)
(*  fseq         assertFSArraysEqual[IgnoringFormatting](a, b), simple_format *)
(***************************************************************************)
EXTENDS ColorStr

V(clause, exact) == <<IF clause = "ok" THEN "ok" ELSE "fail", IF clause = "ok" THEN "" ELSE clause,
                      IF exact THEN "exact" ELSE "drift">>

(* ------------------------------------------------------------ text2array *)
\* the write position i walks a rows x columns grid; CR and LF each move it to the start of the next grid row
\* (so CR LF leaves one row blank, and a newline right after a full row leaves one blank as well); characters past
\* the grid are dropped.  Placements: <<grid row, character>> in message order.
RECURSIVE Lay(_, _, _, _, _)
Lay(msg, k, i, R, C) ==
  IF k > Len(msg) \/ i >= R * C THEN <<>>
  ELSE IF msg[k] \in {10, 13} THEN Lay(msg, k + 1, ((i \div C) + 1) * C, R, C)
  ELSE << <<i \div C, msg[k]>> >> \o Lay(msg, k + 1, i + 1, R, C)

LaidRows(msg, R, C) ==
  LET ps == Lay(msg, 1, 0, R, C)
      h == IF ps = <<>> THEN 0 ELSE ps[Len(ps)][1] + 1
  IN [r \in 1..h |-> LET mine == SelectSeq(ps, LAMBDA p : p[1] = r - 1) IN [j \in 1..Len(mine) |-> mine[j][2]]]

JudgeText2Array(e) ==
  IF e.res.k # "ok" THEN V("Text2Array.Raised", FALSE)
  ELSE LET rows == [j \in 1..Len(e.res.vs) |-> Cells(e.res.vs[j])]
           ref == LaidRows(e.msg, e.rows, e.cols)
       IN IF Len(rows) > e.rows THEN V("Text2Array.MoreRowsThanWindow", FALSE)
          ELSE IF \E j \in 1..Len(rows) : Len(rows[j]) > e.cols THEN V("Text2Array.RowWiderThanWindow", FALSE)
          ELSE IF e.shape # <<Len(ref), e.cols>> THEN V("Text2Array.Shape", FALSE)
          ELSE IF rows # [j \in 1..Len(ref) |-> PlainCells(ref[j])] THEN V("Text2Array.Content", FALSE)
          ELSE V("ok", TRUE)

(* ---------------------------------------------------------------- fsdiff *)
MaxOf(S) == CHOOSE x \in S : \A y \in S : y <= x
Digits(n) == IF n < 10 THEN <<48 + n>> ELSE IF n < 100 THEN <<48 + (n \div 10), 48 + (n % 10)>>
             ELSE <<48 + (n \div 100), 48 + ((n \div 10) % 10), 48 + (n % 10)>>
Fmt3(n) == LET d == Digits(n) IN [k \in 1..(3 - Len(d)) |-> 32] \o d          \* "{:3d}" for 0 <= n < 1000
TokChars(t) == IF t[1] = "t" THEN <<t[2]>> ELSE <<27, 91>> \o Digits(t[2][1]) \o <<109>>
ToksChars(ts) == FlattenSeq([k \in 1..Len(ts) |-> TokChars(ts[k])])
CharStr(c) == ToksChars(ImplColorStr(<< <<c[1]>>, c[2] >>))                     \* str() of a one-character FmtStr
\* per-character <<code point, attributes>> of a row, padded with plain backticks to width w
RowChars(f, w) ==
  LET cs == FlattenSeq([k \in 1..Len(f) |-> [j \in 1..Len(f[k][1]) |-> <<f[k][1][j], f[k][2]>>]])
  IN cs \o [k \in 1..(w - Len(cs)) |-> <<96, NoAtts>>]
Marked(s) == <<27, 91, 52, 109>> \o (<<27, 91, 53, 109>> \o s \o <<27, 91, 48, 109>>) \o <<27, 91, 48, 109>>
DiffLine(ra, rb, w, ign) ==
  LET ca == RowChars(ra, w)
      cb == RowChars(rb, w)
      same(k) == IF ign = 1 THEN ca[k][1] = cb[k][1] ELSE CharStr(ca[k]) = CharStr(cb[k])
      side(cs) == FlattenSeq([k \in 1..w |-> IF same(k) THEN CharStr(cs[k]) ELSE Marked(CharStr(cs[k]))])
  IN side(ca) \o <<32>> \o Fmt3(VLen(ra)) \o <<32, 124, 32>> \o Fmt3(VLen(rb)) \o <<32>> \o side(cb)
DiffText(a, b, ign) ==
  LET w == MaxOf({VLen(a[k]) : k \in 1..Len(a)} \cup {VLen(b[k]) : k \in 1..Len(b)})
      n == Min2(Len(a), Len(b))
      lines == [k \in 1..n |-> DiffLine(a[k], b[k], w, ign)]
  IN FlattenSeq([k \in 1..n |-> IF k = 1 THEN lines[k] ELSE <<10>> \o lines[k]])

JudgeFsDiff(e) ==
  IF Len(e.a) = 0 /\ Len(e.b) = 0
  THEN (IF e.res.k = "exc" /\ e.res.t = "ValueError" THEN V("ok", TRUE) ELSE V("FsDiff.EmptyPairShouldRaise", FALSE))
  ELSE IF e.res.k # "ok" THEN V("FsDiff.Raised", FALSE)
  ELSE IF e.res.s # DiffText(e.a, e.b, e.ign) THEN V("FsDiff.Text", FALSE)
  ELSE V("ok", TRUE)

(* --------------------------------------------------------------- ppevent *)
\* e.curses / e.curtsies: the two tables as sequences of <<byte sequence, name>>; e.name the argument (a name
\* of one of the tables, or any other text); e.plain: Python's repr of the argument without its quotes (a fact)
Lookup(tab, key) == LET hits == SelectSeq(tab, LAMBDA p : p[1] = key) IN IF hits = <<>> THEN <<>> ELSE hits[1][2]
RevLookup(tab, name) ==       \* dict comprehension {v: k}: the last key with this name wins
  LET hits == SelectSeq(tab, LAMBDA p : p[2] = name) IN IF hits = <<>> THEN <<>> ELSE hits[Len(hits)][1]
PpRef(e) ==
  LET viaCurses == RevLookup(e.curses, e.name)
      viaCurtsies == RevLookup(e.curtsies, e.name)
      bytes == IF viaCurses # <<>> THEN viaCurses ELSE viaCurtsies
      pretty == IF bytes = <<>> THEN <<>> ELSE Lookup(e.curtsies, bytes)
  IN IF bytes = <<>> THEN <<"str", e.plain>>
     ELSE IF pretty = <<>> THEN <<"bytes", bytes>>          \* curtsies_name hands unknown byte sequences back
     ELSE IF pretty # e.name THEN <<"str", pretty>> ELSE <<"str", e.plain>>
JudgePpEvent(e) ==
  IF e.res.k # "ok" THEN V("PpEvent.Raised", FALSE)
  ELSE IF <<e.res.t, e.res.s>> # PpRef(e) THEN V("PpEvent.Name", FALSE)
  ELSE V("ok", TRUE)

(* ------------------------------------------------------------------ fseq *)
\* assertFSArraysEqual(a, b): passes exactly when the declared widths and the heights agree and every pair of rows has
\* the same terminal string; assertFSArraysEqualIgnoringFormatting: heights agree and every pair of rows has the same text
\* simple_format(a): the rows' terminal strings joined by newlines
RowStr(f) == ToksChars(ImplStr(f))
JudgeFsEq(e) ==
  LET same == IF e.ign = 1 THEN Len(e.a) = Len(e.b) /\ \A k \in 1..Len(e.a) : Text(e.a[k]) = Text(e.b[k])
              ELSE e.wa = e.wb /\ Len(e.a) = Len(e.b) /\ \A k \in 1..Len(e.a) : RowStr(e.a[k]) = RowStr(e.b[k])
  IN IF same /\ e.res.k # "ok" THEN V("FsEq.EqualArraysRejected", FALSE)
     ELSE IF ~same /\ ~(e.res.k = "exc" /\ e.res.t = "AssertionError") THEN V("FsEq.DifferentArraysAccepted", FALSE)
     ELSE IF e.fmt # FlattenSeq([k \in 1..Len(e.a) |-> IF k = 1 THEN RowStr(e.a[k]) ELSE <<10>> \o RowStr(e.a[k])]) THEN V("FsEq.SimpleFormat", FALSE)
     ELSE V("ok", TRUE)

JudgeExtra(e) ==
  CASE e.op = "text2array" -> JudgeText2Array(e)
    [] e.op = "fsdiff" -> JudgeFsDiff(e)
    [] e.op = "ppevent" -> JudgePpEvent(e)
    [] e.op = "fseq" -> JudgeFsEq(e)
    [] OTHER -> <<"fail", "UnknownOp", "drift">>
=============================================================================

------------------------------- MODULE Extras -------------------------------
(***************************************************************************)
(* Behaviour outside the twenty listed properties, specified as coded and  *)
(* bound to the code by exact conformance of recorded calls (./check       *)
(* extras).  No property is decided here; a mismatch is reported as        *)
(* SPEC-DRIFT, never as a VIOLATION.                                       *)
(*                                                                         *)
(*  text2array   BaseWindow.array_from_text_rc(msg, rows, columns)         *)
(*  fsdiff       FSArray.diff(a, b, ignore_formatting)                     *)
(*  ppevent      events.pp_event(name) for key names of the two tables     *)
(*  fseq         assertFSArraysEqual[IgnoringFormatting](a, b), simple_format *)
(*  normslice    formatstring.normalize_slice(length, index)               *)
(*  evrepr       repr / name / aliases of WindowChangeEvent, SigIntEvent,  *)
(*               PasteEvent                                                *)
(***************************************************************************)
EXTENDS ColorStr

V(clause, exact) == <<IF clause = "ok" THEN "ok" ELSE "fail", IF clause = "ok" THEN "" ELSE clause,
                      IF exact THEN "exact" ELSE "drift">>

(* ------------------------------------------------------------ text2array *)
\* the write position i walks a rows x columns grid; CR and LF each move it to the start of the next grid row
\* (so CR LF leaves one row blank, and a newline right after a full row leaves one blank as well); characters past
\* the grid are dropped.  Placements: <<grid row, character>> in message order.
RECURSIVE Lay(_, _, _, _, _)
Lay(msg, k, i, R, C) ==
  IF k > Len(msg) \/ i >= R * C THEN <<>>
  ELSE IF msg[k] \in {10, 13} THEN Lay(msg, k + 1, ((i \div C) + 1) * C, R, C)
  ELSE << <<i \div C, msg[k]>> >> \o Lay(msg, k + 1, i + 1, R, C)

LaidRows(msg, R, C) ==
  LET ps == Lay(msg, 1, 0, R, C)
      h == IF ps = <<>> THEN 0 ELSE ps[Len(ps)][1] + 1
  IN [r \in 1..h |-> LET mine == SelectSeq(ps, LAMBDA p : p[1] = r - 1) IN [j \in 1..Len(mine) |-> mine[j][2]]]

JudgeText2Array(e) ==
  IF e.res.k # "ok" THEN V("Text2Array.Raised", FALSE)
  ELSE LET rows == [j \in 1..Len(e.res.vs) |-> Cells(e.res.vs[j])]
           ref == LaidRows(e.msg, e.rows, e.cols)
       IN IF Len(rows) > e.rows THEN V("Text2Array.MoreRowsThanWindow", FALSE)
          ELSE IF \E j \in 1..Len(rows) : Len(rows[j]) > e.cols THEN V("Text2Array.RowWiderThanWindow", FALSE)
          ELSE IF e.shape # <<Len(ref), e.cols>> THEN V("Text2Array.Shape", FALSE)
          ELSE IF rows # [j \in 1..Len(ref) |-> PlainCells(ref[j])] THEN V("Text2Array.Content", FALSE)
          ELSE V("ok", TRUE)

(* ---------------------------------------------------------------- fsdiff *)
MaxOf(S) == CHOOSE x \in S : \A y \in S : y <= x
Digits(n) == IF n < 10 THEN <<48 + n>> ELSE IF n < 100 THEN <<48 + (n \div 10), 48 + (n % 10)>>
             ELSE <<48 + (n \div 100), 48 + ((n \div 10) % 10), 48 + (n % 10)>>
Fmt3(n) == LET d == Digits(n) IN [k \in 1..(3 - Len(d)) |-> 32] \o d          \* "{:3d}" for 0 <= n < 1000
TokChars(t) == IF t[1] = "t" THEN <<t[2]>> ELSE <<27, 91>> \o Digits(t[2][1]) \o <<109>>
ToksChars(ts) == FlattenSeq([k \in 1..Len(ts) |-> TokChars(ts[k])])
CharStr(c) == ToksChars(ImplColorStr(<< <<c[1]>>, c[2] >>))                     \* str() of a one-character FmtStr
\* per-character <<code point, attributes>> of a row, padded with plain backticks to width w
RowChars(f, w) ==
  LET cs == FlattenSeq([k \in 1..Len(f) |-> [j \in 1..Len(f[k][1]) |-> <<f[k][1][j], f[k][2]>>]])
  IN cs \o [k \in 1..(w - Len(cs)) |-> <<96, NoAtts>>]
Marked(s) == <<27, 91, 52, 109>> \o (<<27, 91, 53, 109>> \o s \o <<27, 91, 48, 109>>) \o <<27, 91, 48, 109>>
DiffLine(ra, rb, w, ign) ==
  LET ca == RowChars(ra, w)
      cb == RowChars(rb, w)
      same(k) == IF ign = 1 THEN ca[k][1] = cb[k][1] ELSE CharStr(ca[k]) = CharStr(cb[k])
      side(cs) == FlattenSeq([k \in 1..w |-> IF same(k) THEN CharStr(cs[k]) ELSE Marked(CharStr(cs[k]))])
  IN side(ca) \o <<32>> \o Fmt3(VLen(ra)) \o <<32, 124, 32>> \o Fmt3(VLen(rb)) \o <<32>> \o side(cb)
DiffText(a, b, ign) ==
  LET w == MaxOf({VLen(a[k]) : k \in 1..Len(a)} \cup {VLen(b[k]) : k \in 1..Len(b)})
      n == Min2(Len(a), Len(b))
      lines == [k \in 1..n |-> DiffLine(a[k], b[k], w, ign)]
  IN FlattenSeq([k \in 1..n |-> IF k = 1 THEN lines[k] ELSE <<10>> \o lines[k]])

JudgeFsDiff(e) ==
  IF Len(e.a) = 0 /\ Len(e.b) = 0
  THEN (IF e.res.k = "exc" /\ e.res.t = "ValueError" THEN V("ok", TRUE) ELSE V("FsDiff.EmptyPairShouldRaise", FALSE))
  ELSE IF e.res.k # "ok" THEN V("FsDiff.Raised", FALSE)
  ELSE IF e.res.s # DiffText(e.a, e.b, e.ign) THEN V("FsDiff.Text", FALSE)
  ELSE V("ok", TRUE)

(* --------------------------------------------------------------- ppevent *)
\* e.curses / e.curtsies: the two tables as sequences of <<byte sequence, name>>; e.name the argument (a name
\* of one of the tables, or any other text); e.plain: Python's repr of the argument without its quotes (a fact)
Lookup(tab, key) == LET hits == SelectSeq(tab, LAMBDA p : p[1] = key) IN IF hits = <<>> THEN <<>> ELSE hits[1][2]
RevLookup(tab, name) ==       \* dict comprehension {v: k}: the last key with this name wins
  LET hits == SelectSeq(tab, LAMBDA p : p[2] = name) IN IF hits = <<>> THEN <<>> ELSE hits[Len(hits)][1]
PpRef(e) ==
  LET viaCurses == RevLookup(e.curses, e.name)
      viaCurtsies == RevLookup(e.curtsies, e.name)
      bytes == IF viaCurses # <<>> THEN viaCurses ELSE viaCurtsies
      pretty == IF bytes = <<>> THEN <<>> ELSE Lookup(e.curtsies, bytes)
  IN IF bytes = <<>> THEN <<"str", e.plain>>
     ELSE IF pretty = <<>> THEN <<"bytes", bytes>>          \* curtsies_name hands unknown byte sequences back
     ELSE IF pretty # e.name THEN <<"str", pretty>> ELSE <<"str", e.plain>>
JudgePpEvent(e) ==
  IF e.res.k # "ok" THEN V("PpEvent.Raised", FALSE)
  ELSE IF <<e.res.t, e.res.s>> # PpRef(e) THEN V("PpEvent.Name", FALSE)
  ELSE V("ok", TRUE)

(* ------------------------------------------------------------------ fseq *)
\* assertFSArraysEqual(a, b): passes exactly when the declared widths and the heights agree and every pair of rows has
\* the same terminal string; assertFSArraysEqualIgnoringFormatting: heights agree and every pair of rows has the same text
\* simple_format(a): the rows' terminal strings joined by newlines
RowStr(f) == ToksChars(ImplStr(f))
JudgeFsEq(e) ==
  LET same == IF e.ign = 1 THEN Len(e.a) = Len(e.b) /\ \A k \in 1..Len(e.a) : Text(e.a[k]) = Text(e.b[k])
              ELSE e.wa = e.wb /\ Len(e.a) = Len(e.b) /\ \A k \in 1..Len(e.a) : RowStr(e.a[k]) = RowStr(e.b[k])
  IN IF same /\ e.res.k # "ok" THEN V("FsEq.EqualArraysRejected", FALSE)
     ELSE IF ~same /\ ~(e.res.k = "exc" /\ e.res.t = "AssertionError") THEN V("FsEq.DifferentArraysAccepted", FALSE)
     ELSE IF e.fmt # FlattenSeq([k \in 1..Len(e.a) |-> IF k = 1 THEN RowStr(e.a[k]) ELSE <<10>> \o RowStr(e.a[k])]) THEN V("FsEq.SimpleFormat", FALSE)
     ELSE V("ok", TRUE)

(* ------------------------------------------------------------------ dumb *)
\* FSArray.dumb_display(): prints each row's terminal string followed by a newline, top to bottom, whatever the declared
\* width of the array and whatever the terminal; returns nothing.  e.a = the rows as the array holds them, e.out = stdout
JudgeDumb(e) ==
  IF e.res.k # "ok" THEN V("Dumb.Raised", FALSE)
  ELSE IF e.res.t # "" THEN V("Dumb.ReturnsNothing", FALSE)
  ELSE IF e.out # FlattenSeq([k \in 1..Len(e.a) |-> RowStr(e.a[k]) \o <<10>>]) THEN V("Dumb.OneLinePerRow", FALSE)
  ELSE V("ok", TRUE)

(* ------------------------------------------------------------- normslice *)
\* formatstring.normalize_slice(length, index), as coded: an int index wraps once and must land inside; a slice gets its
\* Nones filled in and its negative bounds wrapped and clamped at 0 - nothing is clamped at the top - and a step, of
\* whatever value, is refused only after all that.   e.ix = <<"int", i>> or <<"slice", a, an, b, bn, hasStep>>
NormRef(n, ix) ==
  IF ix[1] = "int"
  THEN LET i == IF ix[2] < 0 THEN ix[2] + n ELSE ix[2]
       IN IF i < 0 \/ i >= n THEN <<"exc", "IndexError", 0, 0>> ELSE <<"ok", "", i, i + 1>>
  ELSE LET a0 == IF ix[3] = 1 THEN 0 ELSE ix[2]
           b0 == IF ix[5] = 1 THEN n ELSE ix[4]
           a1 == IF a0 < 0 THEN Max2(0, n + a0) ELSE a0
           b1 == IF b0 < 0 THEN Max2(0, n + b0) ELSE b0
       IN IF ix[6] = 1 THEN <<"exc", "NotImplementedError", 0, 0>> ELSE <<"ok", "", a1, b1>>
JudgeNormSlice(e) ==
  IF <<e.res.k, e.res.t, e.res.a, e.res.b>> # NormRef(e.n, e.ix) THEN V("NormSlice.Result", FALSE) ELSE V("ok", TRUE)

(* --------------------------------------------------------------- evrepr *)
\* repr / name of the event classes: WindowChangeEvent(rows, columns[, cursor_dy]), SigIntEvent(), PasteEvent() with
\* key names free of quotes and backslashes (so Python's repr of each is the name between apostrophes)
Dec(n) == IF n < 0 THEN <<45>> \o Digits(0 - n) ELSE Digits(n)
Str(s) == [k \in 1..Len(s) |-> CASE s[k] = "<" -> 60 [] s[k] = ">" -> 62 [] s[k] = " " -> 32 [] s[k] = "(" -> 40 [] s[k] = ")" -> 41
                                  [] s[k] = "," -> 44 [] s[k] = ":" -> 58 [] s[k] = "_" -> 95 [] s[k] = "[" -> 91 [] s[k] = "]" -> 93 [] s[k] = "'" -> 39
                                  [] OTHER -> 0]
EvReprRef(e) ==
  CASE e.cls = "winch" -> <<60>> \o e.wc \o <<32, 40>> \o Dec(e.rows) \o <<44, 32>> \o Dec(e.cols) \o <<41>>
                          \o (IF e.hasdy = 1 THEN <<32>> \o e.cdy \o <<58, 32>> \o Dec(e.dy) ELSE <<>>) \o <<62>>
    [] e.cls = "sigint" -> e.lit
    [] e.cls = "paste" -> e.lit \o <<91>> \o FlattenSeq([k \in 1..Len(e.keys) |-> (IF k = 1 THEN <<>> ELSE <<44, 32>>) \o <<39>> \o e.keys[k] \o <<39>>]) \o <<93, 62>>
EvNameRef(e) == IF e.cls = "winch" THEN <<60>> \o e.wc \o <<62>> ELSE EvReprRef(e)
JudgeEvRepr(e) ==
  IF e.repr # EvReprRef(e) THEN V("EvRepr.Repr", FALSE)
  ELSE IF e.name # EvNameRef(e) THEN V("EvRepr.Name", FALSE)
  ELSE IF e.cls = "winch" /\ e.xywh # <<e.cols, e.rows, e.cols, e.rows>> THEN V("EvRepr.Aliases", FALSE)
  ELSE V("ok", TRUE)

JudgeExtra(e) ==
  CASE e.op = "text2array" -> JudgeText2Array(e)
    [] e.op = "normslice" -> JudgeNormSlice(e)
    [] e.op = "evrepr" -> JudgeEvRepr(e)
    [] e.op = "fsdiff" -> JudgeFsDiff(e)
    [] e.op = "ppevent" -> JudgePpEvent(e)
    [] e.op = "fseq" -> JudgeFsEq(e)
    [] e.op = "dumb" -> JudgeDumb(e)
    [] OTHER -> <<"fail", "UnknownOp", "drift">>
=============================================================================

---------------------------- MODULE MC_KeyDecoder ----------------------------
(***************************************************************************)
(* Design-level model of C03/C20: the decoder as a state machine fed one  *)
(* byte at a time (Input.find_key): buf = bytes since the last key        *)
(* boundary.  Feed(b, full) asks the implementation-shaped decision       *)
(* (KeyDecoder!ImplDecide, on the tables extracted from the working tree) *)
(* and either keeps the byte (more), or cuts a key.  TLC explores every   *)
(* buffer reachable by "more" answers - the whole ESC subtree and the     *)
(* UTF-8 subtrees to depth 2 - with every next byte, both 'full'          *)
(* situations, three encodings and three naming modes, and checks on      *)
(* every transition that the decision is one the statement allows and     *)
(* that the naming modes agree on where the stream is cut.                *)
(***************************************************************************)
EXTENDS KeyDecoder
CONSTANT Utf8Depth
VARIABLES buf, enc, mode, last

vars == <<buf, enc, mode, last>>
Cls(c) == IF c = 0 THEN 0 ELSE IF c = 1 THEN 1 ELSE 2
\* last = the three verdicts of the transition just taken (so that the state space stays small)
Init == buf = <<>> /\ enc \in {"utf8", "ascii", "latin1"} /\ mode \in {"curtsies", "curses", "bytes"} /\ last = <<TRUE, TRUE, TRUE>>
Feed(b, full) ==
  LET s == Append(buf, b)
      d == ImplDecide(s, enc, mode, full)
  IN /\ last' = << AllowedOk(d, s, enc, mode, full),
                   \A m \in {"curtsies", "curses", "bytes"} : Cls(ImplDecide(s, enc, m, full)) = Cls(d),
                   (mode = "bytes" /\ Cls(d) = 2) => d = 4 >>
     /\ buf' = IF d = 0 /\ ~full THEN s ELSE <<>>
     /\ UNCHANGED <<enc, mode>>
Next == \E b \in 0..255, full \in BOOLEAN : (IF Len(buf) < Utf8Depth THEN TRUE ELSE buf[1] = 27) /\ Feed(b, full)
Spec == Init /\ [][Next]_vars

DecisionAllowed == last[1]
ModesAgree == last[2]
BytesIsBytes == last[3]
BufferBounded == Len(buf) < MaxLen
CursesSubset == CursesKeys \subseteq CurtsiesKeys
=============================================================================

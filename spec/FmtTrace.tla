------------------------------ MODULE FmtTrace ------------------------------
(***************************************************************************)
(* L3 - trace validation of recorded executions of the FmtStr value       *)
(* algebra.  Each item of the NDJSON file named by TRACE_FILE is one      *)
(* recorded call of the real code: operation, raw arguments, raw result.  *)
(* The spec consumes item i in one step and computes a total verdict      *)
(*   <<status, clause, conf>>                                             *)
(* status "ok" | "fail"; clause = first L1 clause that does not hold;     *)
(* conf "exact" when the L2 (implementation-shaped) model predicts the    *)
(* observation exactly, "drift" otherwise.  Only L1 decides a property.   *)
(***************************************************************************)
EXTENDS FmtJudge, Json, IOUtils, TLC
VARIABLES i, v

Events == ndJsonDeserialize(IOEnv.TRACE_FILE)

Init == i \in 1..Len(Events) /\ v = <<"todo">>
Next == v = <<"todo">> /\ v' = Judge(Events[i]) /\ UNCHANGED i
Spec == Init /\ [][Next]_<<i, v>>

Report == (v = <<"todo">> \/ v = <<"ok", "", "exact">>) \/ PrintT(<<"V", i>> \o v)
=============================================================================

------------------------------ MODULE Splitter ------------------------------
(***************************************************************************)
(* C10 / C11, L2 - the column-aware algorithms of formatstring.py as      *)
(* coded:                                                                 *)
(*  ImplRequest   ChunkSplitter.request(max_width): scan characters from   *)
(*                the internal offset; stop before the character that      *)
(*                would exceed max_width; if that leaves the piece one     *)
(*                column short (a double-width character does not fit)     *)
(*                pad it with a space                                      *)
(*  ImplWsplit    FmtStr._width_aware_splitlines: one splitter per run,    *)
(*                pieces appended to the current line, a line is emitted   *)
(*                exactly when it is `columns` wide, a non-empty rest at   *)
(*                the end                                                   *)
(*  ImplWslice    FmtStr.width_aware_slice: run walk by run width, partly  *)
(*                covered runs cut by the per-character column intervals   *)
(*                (interval_overlap)                                       *)
(* and their model-checked relation to the L1 column model (Width.tla).   *)
(***************************************************************************)
EXTENDS Width, FmtImpl

\* <<kind, width, text, new offset>>; kind "none" | "piece"
RECURSIVE ReqScan(_, _, _, _, _)
ReqScan(s, start, i, width, maxw) ==
  LET w == W(s[i])
  IN IF width + w > maxw
     THEN (IF width < maxw THEN <<"piece", width + 1, SubSeq(s, start, i - 1) \o <<32>>, i - 1>>
           ELSE <<"piece", width, SubSeq(s, start, i - 1), i - 1>>)
     ELSE IF i = Len(s) THEN <<"piece", width + w, SubSeq(s, start, i), i>>
     ELSE ReqScan(s, start, i + 1, width + w, maxw)
\* off = number of characters already consumed
ImplRequest(s, off, maxw) == IF off = Len(s) THEN <<"none", 0, <<>>, off>> ELSE ReqScan(s, off + 1, off + 1, 0, maxw)

\* state: k (run index), off, line (runs), wol, lines
RECURSIVE WsplitLoop(_, _, _, _, _, _, _)
WsplitLoop(f, columns, k, off, line, wol, lines) ==
  IF k > Len(f) THEN (IF line # <<>> THEN Append(lines, line) ELSE lines)
  ELSE LET r == ImplRequest(f[k][1], off, columns - wol)
       IN IF r[1] = "none" THEN WsplitLoop(f, columns, k + 1, 0, line, wol, lines)
          ELSE LET line2 == Append(line, <<r[3], f[k][2]>>)
                   wol2 == wol + r[2]
               IN IF wol2 = columns THEN WsplitLoop(f, columns, k, r[4], <<>>, 0, Append(lines, line2))
                  ELSE WsplitLoop(f, columns, k, r[4], line2, wol2, lines)
ImplWsplit(f, columns) == WsplitLoop(f, columns, 1, 0, <<>>, 0, <<>>)

(* ---- width_aware_slice ---- *)
TextWidth(t) == SumSeq([j \in 1..Len(t) |-> W(t[j])])
IntervalOverlap(a, b, x, y) ==
  IF b <= x \/ a >= y THEN 0
  ELSE IF x <= a /\ a <= y THEN Min2(b, y) - a
  ELSE IF x <= b /\ b <= y THEN b - Max2(a, x)
  ELSE IF a >= x /\ b <= y THEN b - a
  ELSE y - x
\* helper width_aware_slice(s, start, end)
ImplTextWslice(t, start, end) ==
  LET div(j) == SumSeq([q \in 1..j |-> W(t[q])])       \* column where character j ends
      piece(j) == LET cs == div(j - 1)  ce == div(j)
                  IN IF cs = start /\ ce = start THEN <<>>
                     ELSE IF cs >= start /\ ce <= end THEN <<t[j]>>
                     ELSE [q \in 1..IntervalOverlap(cs, ce, start, end) |-> 32]
  IN FlattenSeq([j \in 1..Len(t) |-> piece(j)])

\* FmtStr.width_aware_slice(slice(a, b)) for 0 <= a <= b
ImplWslice(f, a, b) ==
  LET cum(k) == SumSeq([j \in 1..k |-> TextWidth(f[j][1])])     \* columns before run k+1
      part(k) == LET c == cum(k - 1)
                     cw == TextWidth(f[k][1])
                 IN IF a < c + cw /\ b > c
                    THEN (IF Min2(b - c, cw) - Max2(0, a - c) = cw THEN <<f[k]>>
                          ELSE << <<ImplTextWslice(f[k][1], Max2(0, a - c), b - c), f[k][2]>> >>)
                    ELSE <<>>
      \* the loop breaks once index.stop < counter (after adding the run's width)
      lastk == IF \E k \in 1..Len(f) : b < cum(k) THEN CHOOSE k \in 1..Len(f) : b < cum(k) /\ \A j \in 1..k - 1 : ~(b < cum(j)) ELSE Len(f)
      parts == FlattenSeq([k \in 1..lastk |-> part(k)])
  IN IF parts = <<>> THEN EmptyValue ELSE parts
=============================================================================

----------------------------- MODULE InputTrace -----------------------------
(***************************************************************************)
(* L3 / L1 - trace validation for C08.  One item = one history of a real  *)
(* curtsies Input on a pty under virtual time, as a flat event list in    *)
(* the order things really happened:                                      *)
(*   arrive(bytes) unget(bytes) trig(id) sched(id, when) tsappend(id)     *)
(*   tswrite sigint tick                      - the environment            *)
(*   req(T, t0)  read(n)  ret(kind, t1, ...)  - the main thread            *)
(* Times are integers (virtual microseconds), T = -1 means no timeout.    *)
(* Keys are requested in "bytes" naming so a key *is* its bytes; bytes    *)
(* given to unget_bytes are upper-case letters, everything else comes     *)
(* from the wire, so the two sources can be told apart.                   *)
(* State: what has entered and what has been delivered, per source.       *)
(***************************************************************************)
EXTENDS Base, Json, IOUtils, TLC
VARIABLES i, l, st, v

Traces == ndJsonDeserialize(IOEnv.TRACE_FILE)
vars == <<i, l, st, v>>
TICK == 1000000

IsUngetByte(b) == b \in 1..26
St0 == [raw |-> FALSE, wireIn |-> <<>>, wireOut |-> <<>>, keysIn |-> <<>>, keysOut |-> 0, ungetIn |-> <<>>, ungetOut |-> <<>>, order |-> <<>>,
        trig |-> <<>>, ts |-> <<>>, sched |-> <<>>, sigs |-> 0, tswrites |-> 0, tsdone |-> {},
        gone |-> {}, schedOut |-> <<>>,
        open |-> FALSE, T |-> -1, t0 |-> 0, deliverable |-> FALSE, schedAtStart |-> FALSE, bigRead |-> FALSE,
        wireAtStart |-> 0, ticksInReq |-> 0, bigN |-> 0, stalled |-> FALSE]

Init == i \in 1..Len(Traces) /\ l = 1 /\ st = [St0 EXCEPT !.raw = (Traces[i].raw = 1)] /\ v = <<"ok", "", 0>>
Fail(clause) == IF v[1] = "ok" /\ clause # "ok" THEN <<"fail", clause, l>> ELSE v

Pending(q, gone) == SelectSeq(q, LAMBDA x : x \notin gone)
PendingSched(s) == SelectSeq(s.sched, LAMBDA x : x[2] \notin s.gone)
WireBacklog(s) == Len(s.wireIn) - Len(s.wireOut)
UngetBacklog(s) == Len(s.ungetIn) - Len(s.ungetOut)
DueSched(s, t) == \E k \in 1..Len(PendingSched(s)) : PendingSched(s)[k][1] < t

\* thread-safe events whose callback has completely run (its queue append and its own pipe write both done)
\* and that have not been returned yet
CompletedTs(s) == SelectSeq(s.ts, LAMBDA x : x \in s.tsdone /\ x \notin s.gone)

Deliverable(s, t) ==
  \/ Pending(s.trig, s.gone) # <<>> \/ Pending(s.ts, s.gone) # <<>> \/ s.sigs > 0
  \/ WireBacklog(s) > 0 \/ UngetBacklog(s) > 0 \/ DueSched(s, t)

\* bytes of a key / paste delivered: split by source, each must continue its own stream
\* keypress level: the wire keys delivered (keys made of unget bytes aside) must be exactly the next
\* keypresses that arrived, one delivered key per arrived keypress - never fragments, never merged
WireKeys(keys) == SelectSeq(keys, LAMBDA k : k # <<>> /\ ~(\A j \in 1..Len(k) : IsUngetByte(k[j])))
\* (s.raw: the history's arrivals hold sequences outside the key tables - how those are cut into keypresses is nobody's
\* promise, only the byte-level clauses apply)
KeypressVerdict(s, keys) ==
  LET wk == WireKeys(keys)
  IN IF s.raw THEN "ok" ELSE IF s.keysOut + Len(wk) <= Len(s.keysIn) /\ SubSeq(s.keysIn, s.keysOut + 1, s.keysOut + Len(wk)) = wk THEN "ok"
     ELSE "KeypressesAsTheyArrived"
KeyBytesVerdict(s, bytes) ==
  LET u == SelectSeq(bytes, IsUngetByte)
      w == SelectSeq(bytes, LAMBDA b : ~IsUngetByte(b))
  IN IF ~IsPrefixOf(s.ungetOut \o u, s.ungetIn) THEN "UngetBytesOnceInOrder"
     ELSE IF ~IsPrefixOf(s.wireOut \o w, s.wireIn) THEN "WireBytesOnceInOrder"
     ELSE "ok"
\* s.order: for every byte the Input holds (read from the stream, or handed over by unget_bytes and not yet returned) whether
\* it was handed over (1) or read (0), in the order in which the Input came to hold them.  Bytes handed over were read from the
\* stream by somebody else AFTER everything this Input had read before, so they come out after those (and before what is
\* read later): the bytes of a returned key / paste continue that order.
Tags(bytes) == [k \in 1..Len(bytes) |-> IF IsUngetByte(bytes[k]) THEN 1 ELSE 0]
OrderVerdict(s, bytes) ==
  IF Len(bytes) <= Len(s.order) /\ SubSeq(s.order, 1, Len(bytes)) = Tags(bytes) THEN "ok" ELSE "HandedOverBytesInArrivalOrder"
AddBytes(s, bytes) == [s EXCEPT !.ungetOut = s.ungetOut \o SelectSeq(bytes, IsUngetByte),
                                !.wireOut = s.wireOut \o SelectSeq(bytes, LAMBDA b : ~IsUngetByte(b)),
                                !.order = IF Len(bytes) <= Len(s.order) THEN SubSeq(s.order, Len(bytes) + 1, Len(s.order)) ELSE <<>>]
AddKeys(s, keys) == [s EXCEPT !.keysOut = s.keysOut + Len(WireKeys(keys))]

RetVerdict(s, e, pt) ==
  LET prompt == s.stalled \/ (e.t1 - s.t0 < TICK /\ s.ticksInReq = 0)
  IN IF e.kind = "exc" THEN "RequestRaised"
     ELSE IF s.deliverable /\ (e.kind = "none" \/ e.kind = "blocked") THEN "ReturnsWhatIsAlreadyDeliverable"
     ELSE IF s.deliverable /\ ~prompt THEN "DoesNotBlockWhileDeliverable"
     ELSE IF e.kind = "key" THEN
          (IF s.bigRead /\ pt >= 0 THEN "BurstComesBackAsOnePaste"
           ELSE IF KeyBytesVerdict(s, e.bytes) # "ok" THEN KeyBytesVerdict(s, e.bytes)
           ELSE IF KeypressVerdict(s, <<e.bytes>>) # "ok" THEN KeypressVerdict(s, <<e.bytes>>)
           ELSE OrderVerdict(s, e.bytes))
     ELSE IF e.kind = "paste" THEN
          (IF ~s.bigRead THEN "PasteWithoutBurst"
           ELSE IF e.keys = <<>> THEN "EmptyPaste"
           ELSE IF Len(FlattenSeq(e.keys)) < s.bigN THEN "PasteHoldsWholeBurst"
           ELSE IF KeyBytesVerdict(s, FlattenSeq(e.keys)) # "ok" THEN KeyBytesVerdict(s, FlattenSeq(e.keys))
           ELSE IF KeypressVerdict(s, e.keys) # "ok" THEN KeypressVerdict(s, e.keys)
           ELSE OrderVerdict(s, FlattenSeq(e.keys)))
     ELSE IF e.kind = "event" THEN
          (IF e.id \in s.gone THEN "EventDeliveredTwice"
           ELSE IF Pending(s.trig, s.gone) # <<>> /\ Pending(s.trig, s.gone)[1] = e.id THEN "ok"
           ELSE IF Pending(s.ts, s.gone) # <<>> /\ Pending(s.ts, s.gone)[1] = e.id THEN "ok"
           ELSE IF \E k \in 1..Len(s.trig) : s.trig[k] = e.id THEN "TriggerOrder"
           ELSE IF \E k \in 1..Len(s.ts) : s.ts[k] = e.id THEN "TriggerOrder"
           ELSE "UnknownEvent")
     ELSE IF e.kind = "sched" THEN
          (IF e.id \in s.gone THEN "EventDeliveredTwice"
           ELSE IF ~\E k \in 1..Len(s.sched) : s.sched[k][2] = e.id THEN "UnknownEvent"
           ELSE LET w == s.sched[CHOOSE k \in 1..Len(s.sched) : s.sched[k][2] = e.id][1]
                IN IF ~(w < e.t1) THEN "ScheduledNotBeforeItsTime"
                   ELSE IF \E k \in 1..Len(PendingSched(s)) : PendingSched(s)[k][1] < w THEN "ScheduledInTimeOrder"
                   ELSE "ok")
     ELSE IF e.kind = "sigint" THEN (IF s.sigs > 0 THEN "ok" ELSE "SigIntOutOfNowhere")
     ELSE IF (e.kind = "none" \/ e.kind = "blocked") /\ CompletedTs(s) # <<>> THEN "ThreadsafeEventStranded"
     ELSE IF e.kind = "none" THEN
          (IF ~s.schedAtStart /\ s.T >= 0 /\ e.t1 < s.t0 + s.T THEN "NoneNotBeforeTimeout"
           ELSE IF Pending(s.trig, s.gone) # <<>> \/ UngetBacklog(s) > 0 \/ s.wireAtStart > Len(s.wireOut) THEN "TimesOutWhileDeliverable"
           ELSE "ok")
     ELSE IF e.kind = "blocked" THEN
          (IF s.T >= 0 THEN "MachineryBlockedWithFiniteTimeout"
           ELSE IF Pending(s.trig, s.gone) # <<>> \/ WireBacklog(s) > 0 \/ UngetBacklog(s) > 0 THEN "BlocksWhileDeliverable"
           ELSE "ok")
     ELSE "MachineryUnknownReturnKind"

AfterRet(s, e) ==
  LET s1 == [s EXCEPT !.open = FALSE, !.bigRead = FALSE, !.ticksInReq = 0, !.stalled = FALSE]
  IN IF e.kind = "key" THEN AddKeys(AddBytes(s1, e.bytes), <<e.bytes>>)
     ELSE IF e.kind = "paste" THEN AddKeys(AddBytes(s1, FlattenSeq(e.keys)), e.keys)
     ELSE IF e.kind = "event" \/ e.kind = "sched" THEN [s1 EXCEPT !.gone = s.gone \cup {e.id}]
     ELSE IF e.kind = "sigint" THEN [s1 EXCEPT !.sigs = Max2(0, s.sigs - 1)]
     ELSE s1

Next ==
  /\ l <= Len(Traces[i].ev)
  /\ l' = l + 1 /\ i' = i
  /\ LET e == Traces[i].ev[l]
         pt == Traces[i].paste
     IN CASE e.k = "arrive" -> st' = [st EXCEPT !.wireIn = st.wireIn \o e.bytes, !.keysIn = st.keysIn \o e.keys] /\ v' = v
          [] e.k = "unget" -> st' = [st EXCEPT !.ungetIn = st.ungetIn \o e.bytes, !.order = st.order \o [k \in 1..Len(e.bytes) |-> 1]] /\ v' = v
          [] e.k = "trig" -> st' = [st EXCEPT !.trig = Append(st.trig, e.id)] /\ v' = v
          [] e.k = "tsappend" -> st' = [st EXCEPT !.ts = Append(st.ts, e.id)] /\ v' = v
          [] e.k = "tswrite" -> st' = [st EXCEPT !.tswrites = st.tswrites + 1,
                                                 !.tsdone = IF e.id # 0 THEN st.tsdone \cup {e.id} ELSE st.tsdone] /\ v' = v
          [] e.k = "tsfin" -> st' = [st EXCEPT !.tsdone = st.tsdone \cup {e.id}] /\ v' = v      \* the callback returned to its caller
          [] e.k = "sched" -> st' = [st EXCEPT !.sched = Append(st.sched, <<e.when, e.id>>)] /\ v' = v
          [] e.k = "sigint" -> st' = [st EXCEPT !.sigs = st.sigs + 1] /\ v' = v
          [] e.k = "tick" -> st' = [st EXCEPT !.ticksInReq = IF st.open THEN st.ticksInReq + 1 ELSE 0] /\ v' = v
          [] e.k = "reenter" -> st' = st /\ v' = v      \* the context was left and the same object entered again: nothing queued is lost
          [] e.k = "stalled" -> st' = [st EXCEPT !.stalled = TRUE] /\ v' = v       \* the thread was descheduled: time passed without the code blocking
          [] e.k = "req" ->
               /\ st' = [st EXCEPT !.open = TRUE, !.T = e.T, !.t0 = e.t0, !.deliverable = Deliverable(st, e.t0),
                                   !.schedAtStart = PendingSched(st) # <<>>, !.bigRead = FALSE,
                                   !.wireAtStart = Len(st.wireIn), !.ticksInReq = 0, !.stalled = FALSE]
               /\ v' = Fail(IF st.open THEN "MachineryNestedRequest" ELSE "ok")
          [] e.k = "read" -> st' = [st EXCEPT !.order = st.order \o [k \in 1..e.n |-> 0],
                                              !.bigRead = st.bigRead \/ (pt >= 0 /\ e.n > pt /\ e.first = 1),
                                              !.bigN = IF pt >= 0 /\ e.n > pt /\ e.first = 1 THEN e.n ELSE st.bigN] /\ v' = v
          [] e.k = "ret" -> /\ v' = Fail(RetVerdict(st, e, pt)) /\ st' = AfterRet(st, e)
          [] e.k = "end" ->
               /\ v' = Fail(IF WireBacklog(st) # 0 \/ UngetBacklog(st) # 0 THEN "EveryByteReturned"
                            ELSE IF Pending(st.trig, st.gone) # <<>> \/ Pending(st.ts, st.gone) # <<>> \/ PendingSched(st) # <<>> THEN "EveryEventReturned"
                            ELSE "ok")
               /\ st' = st
          [] OTHER -> v' = Fail("MachineryUnknownEvent") /\ st' = st
Spec == Init /\ [][Next]_vars
Report == (l <= Len(Traces[i].ev) \/ v[1] = "ok") \/ PrintT(<<"V", i>> \o v \o <<"exact">>)
=============================================================================

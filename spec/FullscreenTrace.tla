--------------------------- MODULE FullscreenTrace ---------------------------
(***************************************************************************)
(* L3 - trace validation for C02: each item of TRACE_FILE is one recorded *)
(* history of a real FullscreenWindow: initial size, hide_cursor, and the *)
(* events enter / render(array, cursor_pos, tokens written) /             *)
(* resize(h, w, cursor) / exit(tokens).  The reference terminal consumes  *)
(* the *recorded* tokens; the L1 clauses are evaluated after every render; *)
(* the L2 model predicts the tokens for conformance.                      *)
(***************************************************************************)
EXTENDS FullscreenWin, Json, IOUtils, TLC
VARIABLES i, l, term, cache, lastHW, v, conf

Traces == ndJsonDeserialize(IOEnv.TRACE_FILE)
vars == <<i, l, term, cache, lastHW, v, conf>>

Init == /\ i \in 1..Len(Traces)
        /\ l = 1 /\ term = NewTerm(Traces[i].h, Traces[i].w) /\ cache = NoCache /\ lastHW = <<0, 0>>
        /\ v = <<"ok", "", 0>> /\ conf = "exact"

Rows(arr) == [j \in 1..Len(arr) |-> arr[j].v]
Fail(clause) == IF v[1] = "ok" /\ clause # "ok" THEN <<"fail", clause, l>> ELSE v
Drift(exact) == IF exact THEN conf ELSE "drift"

Next ==
  /\ l <= Len(Traces[i].ev)
  /\ l' = l + 1 /\ i' = i
  /\ LET e == Traces[i].ev[l]
         hide == Traces[i].hide = 1
     IN CASE e.k = "enter" ->
               /\ term' = ApplyAll(term, e.toks)
               /\ v' = Fail(IF term'.bad # 0 THEN "MachineryUnknownControlFunction" ELSE "ok")
               /\ conf' = Drift(e.toks = EnterFullscreenToks \o (IF hide THEN <<HideTok>> ELSE <<>>))
               /\ UNCHANGED <<cache, lastHW>>
          [] e.k = "render" ->
               LET arr == Rows(e.arr)
                   after == ApplyAll(term, e.toks)
                   c0 == IF lastHW # <<term.h, term.w>> THEN NoCache ELSE cache
                   out == ImplFsRender(c0, arr, e.cp, term.h, term.w, hide)
               IN /\ term' = after
                  /\ v' = Fail(FsRenderVerdict(term, after, arr, e.cp))
                  /\ conf' = Drift(out[1] = e.toks)
                  /\ cache' = out[2]
                  /\ lastHW' = <<term.h, term.w>>
          [] e.k = "resize" ->
               /\ term' = Resize(term, e.h, e.w, e.r, e.c)
               /\ UNCHANGED <<cache, lastHW, v, conf>>
          [] e.k = "exit" ->
               /\ term' = ApplyAll(term, e.toks)
               /\ v' = Fail(IF term'.bad # 0 THEN "MachineryUnknownControlFunction" ELSE "ok")
               /\ conf' = Drift(e.toks = ExitFullscreenToks \o (IF hide THEN NormalToks ELSE <<>>))
               /\ UNCHANGED <<cache, lastHW>>
Spec == Init /\ [][Next]_vars

Report == (l <= Len(Traces[i].ev) \/ (v[1] = "ok" /\ conf = "exact")) \/ PrintT(<<"V", i>> \o v \o <<conf>>)
=============================================================================

-------------------------------- MODULE Scan --------------------------------
(***************************************************************************)
(* C17, L1 - an ECMA-48 scanner over code-point strings, written from the *)
(* standard (5.4: CSI = ESC [ or 0x9B, parameter bytes 0x30-0x3F,         *)
(* intermediate bytes 0x20-0x2F, final byte 0x40-0x7E).                   *)
(*                                                                         *)
(* MustKeep(s): the characters that are certainly *not* part of an escape *)
(* sequence under the most liberal reading - everything from an           *)
(* introducer up to and including the first final byte (or up to the next *)
(* introducer / the end when there is none) may belong to a sequence -    *)
(* except characters above 0x7F (other than the 8-bit CSI): no byte class *)
(* of ECMA-48 control sequences contains them, so they are text.          *)
(* OrdinaryCsi(s): every escape sequence in s is a complete numeric CSI   *)
(* sequence  CSI (digits (; digits)* )? final  (a lone ESC that starts no  *)
(* sequence is ordinary text); Strip(s) removes those sequences.           *)
(***************************************************************************)
EXTENDS Base

ESC == 27  CSI8 == 155  LBR == 91
IsIntro(c) == c = ESC \/ c = CSI8
IsFinal(c) == c \in 64..126
IsDigit(c) == c \in 48..57

RECURSIVE ScanKeep(_, _), SkipLiberal(_, _)
ScanKeep(s, i) ==
  IF i > Len(s) THEN <<>>
  ELSE IF s[i] = CSI8 THEN SkipLiberal(s, i + 1)
  ELSE IF s[i] = ESC THEN
       IF i + 1 <= Len(s) /\ s[i + 1] = LBR THEN SkipLiberal(s, i + 2)
       ELSE IF i + 1 <= Len(s) /\ s[i + 1] \in 32..126 THEN ScanKeep(s, i + 2)   \* ESC + one byte (nF/Fp/Fe/Fs)
       ELSE ScanKeep(s, i + 1)
  ELSE <<s[i]>> \o ScanKeep(s, i + 1)
SkipLiberal(s, j) ==
  IF j > Len(s) THEN <<>>
  ELSE IF IsIntro(s[j]) THEN ScanKeep(s, j)
  ELSE IF IsFinal(s[j]) THEN ScanKeep(s, j + 1)
  ELSE IF s[j] >= 128 THEN <<s[j]>> \o SkipLiberal(s, j + 1)   \* no byte class of a control sequence holds it: it is text (the sequence may go on)
  ELSE SkipLiberal(s, j + 1)
MustKeep(s) == ScanKeep(s, 1)

HasIntro(s) == \E i \in 1..Len(s) : IsIntro(s[i])

\* end position (index of the final byte) of an ordinary numeric CSI whose parameters start at j, or 0
RECURSIVE NumEnd(_, _, _), NumEndNeedDigit(_, _)
NumEnd(s, j, afterDigit) ==   \* afterDigit: the previous byte was a digit (so ';' or the final may follow)
  IF j > Len(s) THEN 0
  ELSE IF IsDigit(s[j]) THEN NumEnd(s, j + 1, TRUE)
  ELSE IF s[j] = 59 THEN (IF afterDigit THEN NumEndNeedDigit(s, j + 1) ELSE 0)
  ELSE IF IsFinal(s[j]) THEN j
  ELSE 0
NumEndNeedDigit(s, j) == IF j <= Len(s) /\ IsDigit(s[j]) THEN NumEnd(s, j + 1, TRUE) ELSE 0

\* <<ordinary?, stripped text>> 
RECURSIVE OrdFrom(_, _)
OrdFrom(s, i) ==
  IF i > Len(s) THEN <<TRUE, <<>>>>
  ELSE IF s[i] = ESC /\ (i = Len(s) \/ s[i + 1] < 32 \/ s[i + 1] >= 127) THEN
       \* a lone ESC (nothing, a control character or a non-ASCII character follows): it starts no escape
       \* sequence at all - it is a control character of the text and stays
       LET r == OrdFrom(s, i + 1) IN <<r[1], <<s[i]>> \o r[2]>>
  ELSE IF IsIntro(s[i]) THEN
       LET start == IF s[i] = CSI8 THEN i + 1 ELSE IF i + 1 <= Len(s) /\ s[i + 1] = LBR THEN i + 2 ELSE 0
           endp == IF start = 0 THEN 0 ELSE NumEnd(s, start, FALSE)
       IN IF endp = 0 THEN <<FALSE, <<>>>> ELSE OrdFrom(s, endp + 1)
  ELSE LET r == OrdFrom(s, i + 1) IN <<r[1], <<s[i]>> \o r[2]>>
OrdinaryCsi(s) == OrdFrom(s, 1)[1]
Strip(s) == OrdFrom(s, 1)[2]
=============================================================================

------------------------------ MODULE ParseArgs ------------------------------
(***************************************************************************)
(* C14, L2 - parse_args as coded: positional names (style= appended last) *)
(* are turned into keyword entries one by one, then every keyword is      *)
(* validated.  State of the walk: <<err, m>> with m the keyword map       *)
(* (0 absent, 1 + value code; colour given by *name* is kept as 100+idx   *)
(* until the final validation, an invalid colour value as 99).            *)
(***************************************************************************)
EXTENDS Spelling

IsKw(it) == it.k \in {"kwname", "kwnum", "bool"}
KwInit(items) ==
  LET kws == SelectSeq(items, IsKw)
      val(it) == IF it.k = "kwnum" THEN (IF it.key = "fg" /\ it.num \in 30..37 THEN 1 + (it.num - 29)
                                         ELSE IF it.key = "bg" /\ it.num \in 40..47 THEN 1 + (it.num - 39) ELSE 99)
                 ELSE IF it.k = "kwname" THEN (IF IdxIn(ColorNames, it.name) # 0 THEN 100 + IdxIn(ColorNames, it.name) ELSE 99)
                 ELSE 1 + (1 + it.val)
      idx(it) == IF it.key = "fg" THEN FG ELSE IF it.key = "bg" THEN BG ELSE 2 + IdxIn(StyleNames, it.key)
      unknownKw == \E j \in 1..Len(kws) : ~(kws[j].key \in {"fg", "bg"} \/ IdxIn(StyleNames, kws[j].key) # 0)
      m == [i \in AttIdx |-> IF \E j \in 1..Len(kws) : idx(kws[j]) = i
                             THEN val(kws[CHOOSE j \in 1..Len(kws) : idx(kws[j]) = i]) ELSE 0]
  IN <<unknownKw \/ \E j \in 1..Len(items) : items[j].k = "junk" /\ items[j].name = "kwunknown", m>>

Args(items) == SelectSeq(items, LAMBDA it : it.k = "pos" \/ (it.k = "junk" /\ it.name \in {"posint", "posnone", "posdict", "posbytes"}))
               \o SelectSeq(items, LAMBDA it : it.k = "style" \/ (it.k = "junk" /\ it.name = "stylenum"))

ArgStep(st, it) ==
  IF st[1] THEN st
  ELSE IF it.k = "junk" THEN <<TRUE, st[2]>>                                   \* args must be strings
  ELSE LET nm == NameMeaning(it.lname)
       IN IF nm[1] = FG THEN (IF st[2][FG] # 0 THEN <<TRUE, st[2]>> ELSE <<FALSE, [st[2] EXCEPT ![FG] = 1 + nm[2]]>>)
          ELSE IF nm[1] = BG THEN (IF st[2][BG] # 0 THEN <<TRUE, st[2]>> ELSE <<FALSE, [st[2] EXCEPT ![BG] = 1 + nm[2]]>>)
          ELSE IF nm[1] # 0 THEN <<FALSE, [st[2] EXCEPT ![nm[1]] = 3]>>
          ELSE <<TRUE, st[2]>>

\* <<"ValueError", _>> or <<"ok", override map>>
ImplParseArgs(items) ==
  LET k0 == KwInit(items)
      walked == FoldLeft(ArgStep, <<FALSE, k0[2]>>, Args(items))
      m == walked[2]
      colourOk(v) == v = 0 \/ v \in 2..9 \/ v \in 101..108
      fin == [i \in AttIdx |-> IF i <= 2 /\ m[i] > 100 THEN 1 + (m[i] - 100) ELSE m[i]]
  IN IF k0[1] \/ walked[1] \/ ~colourOk(m[FG]) \/ ~colourOk(m[BG]) THEN <<"ValueError", m>> ELSE <<"ok", fin>>
=============================================================================

------------------------------- MODULE PyStr -------------------------------
(***************************************************************************)
(* L0 - reference semantics of Python's str operations on sequences,      *)
(* written from the language reference (not from curtsies): slicing with  *)
(* negative / missing / out-of-range bounds, indexing, split on a         *)
(* separator, splitlines on "\n", ljust/rjust, greedy wrapping.           *)
(* Sequences are generic: they are applied to cell lists.                 *)
(***************************************************************************)
EXTENDS Base

\* Python clamps a slice bound i for a sequence of length n
SliceBound(i, n) == IF i < 0 THEN Max2(i + n, 0) ELSE Min2(i, n)

\* s[a:b]; aNone / bNone = 1 when the bound is omitted
PySlice(s, a, aNone, b, bNone) ==
  LET n == Len(s)
      lo == IF aNone = 1 THEN 0 ELSE SliceBound(a, n)
      hi == IF bNone = 1 THEN n ELSE SliceBound(b, n)
  IN IF lo >= hi THEN <<>> ELSE SubSeq(s, lo + 1, hi)

PyIndexOk(s, i) == -Len(s) <= i /\ i < Len(s)
PyIndex(s, i) == s[(IF i < 0 THEN i + Len(s) ELSE i) + 1]

Repeat(s, n) == FlattenSeq([k \in 1..n |-> s])

PyJoin(sep, items) ==
  FlattenSeq([k \in 1..Len(items) |-> IF k = 1 THEN items[k] ELSE sep \o items[k]])

\* positions (1-based starts) of the non-overlapping left-to-right occurrences of sep (non-empty) in t
RECURSIVE OccFrom(_, _, _)
OccFrom(t, sep, from) ==
  IF from + Len(sep) - 1 > Len(t) THEN <<>>
  ELSE IF SubSeq(t, from, from + Len(sep) - 1) = sep THEN <<from>> \o OccFrom(t, sep, from + Len(sep))
  ELSE OccFrom(t, sep, from + 1)

\* str.split(sep) as a list of <<start, end>> half-open 0-based ranges into t
SplitRanges(t, sep) ==
  LET occ == OccFrom(t, sep, 1)
      k == Len(occ)
  IN [j \in 1..k + 1 |-> << IF j = 1 THEN 0 ELSE occ[j - 1] - 1 + Len(sep),
                            IF j = k + 1 THEN Len(t) ELSE occ[j] - 1 >>]

\* str.splitlines([keepends]) (library reference, "str.splitlines": line boundaries are LF, CR, CR LF, VT, FF, FS, GS,
\* RS, NEL, LINE SEPARATOR, PARAGRAPH SEPARATOR; no empty piece after a final boundary) as <<start, end>> half-open
\* 0-based ranges into t; keepends keeps the boundary with its line
LineBreaks == {10, 13, 11, 12, 28, 29, 30, 133, 8232, 8233}
RECURSIVE LinesFrom(_, _, _, _)
LinesFrom(t, i, start, keepends) ==       \* i: 1-based position examined next; start: 0-based start of the open line
  IF i > Len(t) THEN (IF start < Len(t) THEN << <<start, Len(t)>> >> ELSE <<>>)
  ELSE IF t[i] \in LineBreaks
       THEN LET n == IF t[i] = 13 /\ i < Len(t) /\ t[i + 1] = 10 THEN 2 ELSE 1
            IN << <<start, IF keepends = 1 THEN i - 1 + n ELSE i - 1>> >> \o LinesFrom(t, i + n, i - 1 + n, keepends)
       ELSE LinesFrom(t, i + 1, start, keepends)
SplitlinesRanges(t, keepends) == LinesFrom(t, 1, 0, keepends)

Ranges(s, rs) == [j \in 1..Len(rs) |-> SubSeq(s, rs[j][1] + 1, rs[j][2])]
=============================================================================

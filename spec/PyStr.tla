------------------------------- MODULE PyStr -------------------------------
(***************************************************************************)
(* L0 - reference semantics of Python's str operations on sequences,      *)
(* written from the language reference (not from curtsies): slicing with  *)
(* negative / missing / out-of-range bounds, indexing, split on a         *)
(* separator, splitlines on "\n", ljust/rjust, greedy wrapping.           *)
(* Sequences are generic: they are applied to cell lists.                 *)
(***************************************************************************)
EXTENDS Base

\* Python clamps a slice bound i for a sequence of length n
SliceBound(i, n) == IF i < 0 THEN Max2(i + n, 0) ELSE Min2(i, n)

\* s[a:b]; aNone / bNone = 1 when the bound is omitted
PySlice(s, a, aNone, b, bNone) ==
  LET n == Len(s)
      lo == IF aNone = 1 THEN 0 ELSE SliceBound(a, n)
      hi == IF bNone = 1 THEN n ELSE SliceBound(b, n)
  IN IF lo >= hi THEN <<>> ELSE SubSeq(s, lo + 1, hi)

PyIndexOk(s, i) == -Len(s) <= i /\ i < Len(s)
PyIndex(s, i) == s[(IF i < 0 THEN i + Len(s) ELSE i) + 1]

Repeat(s, n) == FlattenSeq([k \in 1..n |-> s])

PyJoin(sep, items) ==
  FlattenSeq([k \in 1..Len(items) |-> IF k = 1 THEN items[k] ELSE sep \o items[k]])

\* positions (1-based starts) of the non-overlapping left-to-right occurrences of sep (non-empty) in t
RECURSIVE OccFrom(_, _, _)
OccFrom(t, sep, from) ==
  IF from + Len(sep) - 1 > Len(t) THEN <<>>
  ELSE IF SubSeq(t, from, from + Len(sep) - 1) = sep THEN <<from>> \o OccFrom(t, sep, from + Len(sep))
  ELSE OccFrom(t, sep, from + 1)

\* str.split(sep) as a list of <<start, end>> half-open 0-based ranges into t
SplitRanges(t, sep) ==
  LET occ == OccFrom(t, sep, 1)
      k == Len(occ)
  IN [j \in 1..k + 1 |-> << IF j = 1 THEN 0 ELSE occ[j - 1] - 1 + Len(sep),
                            IF j = k + 1 THEN Len(t) ELSE occ[j] - 1 >>]

\* str.splitlines() restricted to texts whose only line boundary is "\n" (10):
\* a trailing empty piece is dropped; keepends keeps the newline with its line
SplitlinesRanges(t, keepends) ==
  LET nl == <<10>>
      rs == SplitRanges(t, nl)
      k == Len(rs)
      core == IF rs[k][1] = rs[k][2] THEN SubSeq(rs, 1, k - 1) ELSE rs
  IN [j \in 1..Len(core) |->
        <<core[j][1], IF keepends = 1 /\ j < k THEN core[j][2] + 1 ELSE core[j][2]>>]

Ranges(s, rs) == [j \in 1..Len(rs) |-> SubSeq(s, rs[j][1] + 1, rs[j][2])]
=============================================================================

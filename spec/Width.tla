------------------------------- MODULE Width -------------------------------
(***************************************************************************)
(* C10 / C11, L1 - the column model.  The alphabet's width classes are a  *)
(* specification constant (checked against cwcwidth by ./check setup):    *)
(*   narrow  a b x space          1 column                                 *)
(*   wide    U+FF25 U+65E5 U+1F600 2 columns                                *)
(*   zero    U+0301 U+200B        0 columns (combining / zero width)       *)
(*           U+0E31 U+200D U+1160 0 columns, canonical combining class 0    *)
(* Cols(cells) is the column-expanded list: one entry <<cp, atts, half>>  *)
(* per occupied column, half = "N" narrow, "L"/"R" halves of a wide char. *)
(***************************************************************************)
EXTENDS Base

WideSet == {65317, 26085, 128512, 12288, 12334}     \* + IDEOGRAPHIC SPACE, HANGUL SINGLE DOT TONE MARK (a spacing combining mark)
ZeroSet == {769, 8203, 3633, 8205, 4448}
W(cp) == IF cp \in WideSet THEN 2 ELSE IF cp \in ZeroSet THEN 0 ELSE 1

CellCols(c) == IF W(c[1]) = 2 THEN << <<c[1], c[2], "L">>, <<c[1], c[2], "R">> >>
               ELSE IF W(c[1]) = 1 THEN << <<c[1], c[2], "N">> >> ELSE <<>>
Cols(cs) == FlattenSeq([k \in 1..Len(cs) |-> CellCols(cs[k])])
CellsWidth(cs) == SumSeq([k \in 1..Len(cs) |-> W(cs[k][1])])
ZeroCells(cs) == SelectSeq(cs, LAMBDA c : W(c[1]) = 0)

\* Which zero-width characters a column slice a..b-1 of the run list f holds.  A zero-width character displays in the
\* column of the character before it, so one sitting at column position p (the number of columns before it) belongs
\* to columns a..b-1 when a < p < b; at p = b it rides on the last character inside (kept or not: either reading is
\* accepted), at p = a it belongs to the column before the slice - accepted only where there is no such column
\* (a = 0) or where it opens a run - nothing but zero-width characters before it in its run - (a run covered whole
\* is taken whole); every other one must not appear.
ZeroAnn(f) ==          \* <<cell, position, opens its run>> of every zero-width character, in order
  LET flat == FlattenSeq([k \in 1..Len(f) |-> [j \in 1..Len(f[k][1]) |-> <<f[k][1][j], f[k][2], \A i \in 1..j - 1 : W(f[k][1][i]) = 0>>]])
      pos(n) == FoldLeft(LAMBDA acc, q : acc + W(q[1]), 0, SubSeq(flat, 1, n - 1))
      idx == SelectSeq([n \in 1..Len(flat) |-> n], LAMBDA n : W(flat[n][1]) = 0)
  IN [q \in 1..Len(idx) |-> <<flat[idx[q]][1], flat[idx[q]][2], pos(idx[q]), flat[idx[q]][3]>>]
ZeroMust(f, a, b) == SelectSeq(ZeroAnn(f), LAMBDA z : a < z[3] /\ z[3] < b /\ ~z[4])     \* (one that opens a run: either reading)
ZeroMay(f, a, b) == SelectSeq(ZeroAnn(f), LAMBDA z : (a < z[3] /\ z[3] <= b) \/ (z[3] = a /\ (a = 0 \/ z[4]) /\ a <= b))

AbsWidth(cs) == CellsWidth(cs)
AbsWidthAtOffset(cs, n) == CellsWidth(Take(cs, n))

\* what display columns a..b-1 hold: a wide character cut by either edge becomes a space with its formatting
AbsWsliceCols(cs, a, b) ==
  LET C == Cols(cs)
      hi == Min2(b, Len(C))
      entry(c) ==   \* c is a 0-based column, C[c+1] its entry
        LET x == C[c + 1]
        IN IF x[3] = "N" THEN x
           ELSE IF x[3] = "L" THEN (IF c + 1 < hi THEN x ELSE <<32, x[2], "N">>)
           ELSE (IF c - 1 >= a THEN x ELSE <<32, x[2], "N">>)
  IN IF a >= hi THEN <<>> ELSE [k \in 1..hi - a |-> entry(a + k - 1)]

(* ---- C11: lines (cell lists) are a wrapping of cs to `columns` ---- *)
IsWideCell(c) == W(c[1]) = 2
RECURSIVE WrapMatch(_, _, _, _, _)
WrapMatch(lines, j, cs, pos, columns) ==
  IF j > Len(lines) THEN pos = Len(cs) + 1
  ELSE LET L == lines[j]
           n == Len(L)
           fits(m) == pos + m - 1 <= Len(cs) /\ SubSeq(cs, pos, pos + m - 1) = SubSeq(L, 1, m)
       IN \/ fits(n) /\ WrapMatch(lines, j + 1, cs, pos + n, columns)
          \/ /\ j < Len(lines) /\ n >= 1 /\ lines[j + 1] # <<>>
             /\ L[n][1] = 32 /\ IsWideCell(lines[j + 1][1]) /\ L[n][2] = lines[j + 1][1][2]
             /\ CellsWidth(L) = columns
             /\ fits(n - 1) /\ WrapMatch(lines, j + 1, cs, pos + n - 1, columns)

WrapVerdict(lines, cs, columns) ==
  IF \E j \in 1..Len(lines) : CellsWidth(lines[j]) > columns THEN "LineTooWide"
  ELSE IF \E j \in 1..Len(lines) - 1 : CellsWidth(lines[j]) # columns THEN "InnerLineNotFull"
  ELSE IF \E j \in 1..Len(lines) : lines[j] = <<>> THEN "EmptyLine"
  ELSE IF ~WrapMatch(lines, 1, cs, 1, columns) THEN "ContentOrPadding"
  ELSE "ok"
=============================================================================

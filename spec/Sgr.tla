-------------------------------- MODULE Sgr --------------------------------
(***************************************************************************)
(* L0/L1 - the graphic-rendition state of an ANSI terminal and the stream *)
(* terminal ("what would be displayed") used by C01, C05 and by Term.tla. *)
(* The ANSI numbers below are the specification's own table (ECMA-48 8.3.117), *)
(* independent of curtsies/termformatconstants.py.                         *)
(*                                                                         *)
(* token  : <<"t", cp>>            one character of text                   *)
(*          <<"m", <<p1,..,pn>>>>  SGR sequence with its parameters        *)
(*          <<"x", ...>>           any other control function              *)
(***************************************************************************)
EXTENDS Base

Poison == <<99, 99, 0, 0, 0, 0, 0, 0>>   \* graphic state after a parameter this spec does not know

SgrParam(gr, p) ==
  IF gr = Poison THEN Poison
  ELSE IF p = 0 THEN DefaultGr
  ELSE IF p = 1 THEN [gr EXCEPT ![BOLD] = 1]
  ELSE IF p = 2 THEN [gr EXCEPT ![DARK] = 1]
  ELSE IF p = 3 THEN [gr EXCEPT ![ITALIC] = 1]
  ELSE IF p = 4 THEN [gr EXCEPT ![UNDERLINE] = 1]
  ELSE IF p = 5 THEN [gr EXCEPT ![BLINK] = 1]
  ELSE IF p = 7 THEN [gr EXCEPT ![INVERT] = 1]
  ELSE IF p = 22 THEN [gr EXCEPT ![BOLD] = 0, ![DARK] = 0]
  ELSE IF p = 23 THEN [gr EXCEPT ![ITALIC] = 0]
  ELSE IF p = 24 THEN [gr EXCEPT ![UNDERLINE] = 0]
  ELSE IF p = 25 THEN [gr EXCEPT ![BLINK] = 0]
  ELSE IF p = 27 THEN [gr EXCEPT ![INVERT] = 0]
  ELSE IF p \in 30..37 THEN [gr EXCEPT ![FG] = p - 29]
  ELSE IF p = 39 THEN [gr EXCEPT ![FG] = 0]
  ELSE IF p \in 40..47 THEN [gr EXCEPT ![BG] = p - 39]
  ELSE IF p = 49 THEN [gr EXCEPT ![BG] = 0]
  ELSE Poison

\* ESC[m is ESC[0m
ApplySgr(gr, ps) == IF ps = <<>> THEN DefaultGr ELSE FoldLeft(SgrParam, gr, ps)

\* The stream terminal: state <<gr, shown, other>>.
StreamInit == <<DefaultGr, <<>>, 0>>
StreamFeed(st, tok) ==
  IF tok[1] = "t" THEN <<st[1], Append(st[2], <<tok[2], st[1]>>), st[3]>>
  ELSE IF tok[1] = "m" THEN <<ApplySgr(st[1], tok[2]), st[2], st[3]>>
  ELSE <<st[1], st[2], st[3] + 1>>
StreamRun(toks) == FoldLeft(StreamFeed, StreamInit, toks)

\* the opening SGR number of each attribute (the spec's table)
OpenCode(i, v) == IF i = FG THEN 29 + v ELSE IF i = BG THEN 39 + v
                  ELSE <<0, 0, 1, 2, 3, 4, 5, 7>>[i]
=============================================================================

------------------------------- MODULE FmtAbs -------------------------------
(***************************************************************************)
(* L1 - the listed properties of the FmtStr value algebra stated over     *)
(* per-character cell lists.  Nothing here knows how curtsies computes    *)
(* its results: every operator says what the *answer* must be.            *)
(***************************************************************************)
EXTENDS PyStr

(* ---------------------------------------------------------------- C06 *)
AbsSlice(cs, a, an, b, bn) == PySlice(cs, a, an, b, bn)
AbsIndexRaises(cs, i) == ~PyIndexOk(cs, i)
AbsIndex(cs, i) == <<PyIndex(cs, i)>>
AbsAdd(xs, ys) == xs \o ys
AbsMul(cs, n) == Repeat(cs, n)
AbsJoin(sep, items) == PyJoin(sep, items)

(* ---------------------------------------------------------------- C09 *)
\* end omitted = pure insertion; a start past the end appends
AbsSplice(cs, new, s, e, en) ==
  LET ee == IF en = 1 THEN s ELSE e
  IN Take(cs, s) \o new \o Drop(cs, ee)
AbsAppend(cs, xs) == cs \o xs

(* ---------------------------------------------------------------- C14 *)
\* override exactly the attributes named in m (m: 8-tuple of 0 = not named, or 1 + value)
ApplyAtts(a, m) == [i \in AttIdx |-> IF m[i] = 0 THEN a[i] ELSE m[i] - 1]
AbsApplyCells(f, m) == Cells([k \in 1..Len(f) |-> <<f[k][1], ApplyAtts(f[k][2], m)>>])
\* remove exactly the named attributes (names: set of indices)
AbsRemoveCells(f, names) ==
  Cells([k \in 1..Len(f) |-> <<f[k][1], [i \in AttIdx |-> IF i \in names THEN 0 ELSE f[k][2][i]]>>])

\* attribute values every character has (display level): result[i] = value if all cells agree else 0
SharedDisp(cs) ==
  [i \in AttIdx |-> IF cs # <<>> /\ \A k \in 1..Len(cs) : cs[k][2][i] = cs[1][2][i] THEN cs[1][2][i] ELSE 0]

\* "no result shows formatting that no character of the original had"
NoInvented(rescells, origcells, extra) ==
  \A k \in 1..Len(rescells) : \A i \in AttIdx :
     rescells[k][2][i] # 0 =>
        \/ \E j \in 1..Len(origcells) : origcells[j][2][i] = rescells[k][2][i]
        \/ \E j \in 1..Len(extra) : extra[j][i] = rescells[k][2][i]
=============================================================================

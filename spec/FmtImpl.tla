------------------------------ MODULE FmtImpl ------------------------------
(***************************************************************************)
(* L2 - implementation-shaped models of curtsies/formatstring.py: the run *)
(* lists the code builds, step by step as coded (run walk with a running  *)
(* counter, slice normalisation, the per-run case split of splice, ...).  *)
(* These are what TLC model-checks against FmtAbs (L1) and what recorded  *)
(* run lists are compared with for conformance ("exact" / "drift").       *)
(***************************************************************************)
EXTENDS FmtAbs

EmptyValue == << <<<<>>, NoAtts>> >>          \* fmtstr("") : one empty unformatted run
Run(t, a) == <<t, a>>
NonEmptyRuns(f) == SelectSeq(f, LAMBDA r : r[1] # <<>>)

(* normalize_slice(length, slice): Nones filled in, negative bounds counted from the end and
   clamped at 0; bounds past the end are left alone (the run walk copes with them) *)
ImplNormBound(i, n) == IF i < 0 THEN Max2(0, n + i) ELSE i
ImplNormSlice(n, a, an, b, bn) ==
  << IF an = 1 THEN 0 ELSE ImplNormBound(a, n), IF bn = 1 THEN n ELSE ImplNormBound(b, n) >>

(* FmtStr.__getitem__ after normalisation: walk the runs with a counter; a run that lies
   wholly inside is shared, a partly covered one is cut; nothing selected -> fmtstr("") *)
ImplGetRange(f, lo, hi) ==
  LET D == Divides(f)
      part(k) == LET c == D[k]
                     n == Len(f[k][1])
                 IN IF lo < c + n /\ hi > c
                    THEN << Run(SubSeq(f[k][1], Max2(0, lo - c) + 1, Min2(hi - c, n)), f[k][2]) >>
                    ELSE <<>>
      parts == FlattenSeq([k \in 1..Len(f) |-> part(k)])
  IN IF parts = <<>> THEN EmptyValue ELSE parts

ImplSlice(f, a, an, b, bn) ==
  LET ns == ImplNormSlice(VLen(f), a, an, b, bn) IN ImplGetRange(f, ns[1], ns[2])

ImplIndex(f, i) == LET j == IF i < 0 THEN i + VLen(f) ELSE i IN ImplGetRange(f, j, j + 1)

(* + / radd: run lists concatenated, a plain str becomes one unformatted run *)
ImplAdd(x, y) == x \o y
ImplMul(f, n) == Repeat(f, n)
ImplJoin(sep, items) == FlattenSeq([k \in 1..Len(items) |-> IF k = 1 THEN items[k] ELSE sep \o items[k]])

(* FmtStr.splice: one step per run (bfs, bfs_start, bfs_end); acc = <<components, inserted>> *)
SpliceStep(acc, rb, new, s, e) ==   \* rb = <<run, start, end>>
    LET r == rb[1]  bs == rb[2]  be == rb[3]
    IN IF bs <= s /\ s < be
       THEN << acc[1] \o << Run(SubSeq(r[1], 1, s - bs), r[2]) >> \o new
                      \o (IF e < be THEN << Run(SubSeq(r[1], e - bs + 1, Len(r[1])), r[2]) >> ELSE <<>>), TRUE >>
       ELSE IF bs < e /\ e < be
       THEN << acc[1] \o << Run(SubSeq(r[1], e - bs + 1, Len(r[1])), r[2]) >>, acc[2] >>
       ELSE IF bs >= e \/ be <= s
       THEN << acc[1] \o <<r>>, acc[2] >>
       ELSE acc

ImplSplice(f, new, s, e, en) ==
  LET ee == IF en = 1 THEN s ELSE e
      D == Divides(f)
      rbs == [k \in 1..Len(f) |-> <<f[k], D[k], D[k + 1]>>]
      walked == FoldLeft(LAMBDA acc, rb : SpliceStep(acc, rb, new, s, ee), << <<>>, FALSE >>, rbs)
      comps == IF walked[2] THEN walked[1] ELSE walked[1] \o new
  IN IF Text(new) = <<>> /\ ee = s THEN f ELSE NonEmptyRuns(comps)

ImplAppend(f, x) == ImplSplice(f, x, VLen(f), 0, 1)
=============================================================================

------------------------------ MODULE MC_Parse ------------------------------
(***************************************************************************)
(* Design-level model checking of C05: for every token string of          *)
(* <= MaxItems items of the grammar (characters a, b, newline; ESC[p m    *)
(* for each supported code; ESC[m) the parser model (Parse.tla) yields    *)
(* exactly the cells the stream terminal (Sgr.tla) displays; and parsing  *)
(* the token list ColorStr.tla produces for a run gives the run back.     *)
(***************************************************************************)
EXTENDS Parse, ColorStr, TLC
CONSTANTS MaxItems
VARIABLES mode, toks, f

Codes == {0, 1, 2, 3, 4, 5, 7, 39, 49} \cup (30..37) \cup (40..47)
Items == {<<"t", 97>>, <<"t", 98>>, <<"t", 10>>, <<"m", <<>>>>} \cup {<<"m", <<p>>>> : p \in Codes}
          \cup {<<"m", <<1, 31>>>>, <<"m", <<0, 44, 4>>>>}
RunAttsSet == {<<fg, bg, b, 0, i, 0, 0, v>> : fg \in {0, 2, 8}, bg \in {0, 1, 5}, b \in 0..2, i \in 0..2, v \in 0..2}
RunTexts == {<<>>, <<97>>, <<97, 10, 98>>, <<10>>}

Init == mode = "start" /\ toks = <<>> /\ f = <<>>
Next ==
  \/ /\ mode \in {"start", "grammar"} /\ Len(toks) < MaxItems
     /\ \E it \in Items : toks' = Append(toks, it)
     /\ mode' = "grammar" /\ f' = f
  \/ /\ mode \in {"start", "runs"} /\ Len(f) < 2
     /\ \E t \in RunTexts, a \in RunAttsSet : f' = Append(f, <<t, a>>)
     /\ mode' = "runs" /\ toks' = toks
Spec == Init /\ [][Next]_<<mode, toks, f>>

ParseShowsWhatTerminalShows == mode = "grammar" => Cells(ImplParse(toks)) = AbsParseCells(toks)
RoundTripOfColorStr == mode = "runs" => Cells(ImplParse(ImplStr(f))) = Cells(f)
=============================================================================

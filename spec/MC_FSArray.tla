------------------------------ MODULE MC_FSArray ------------------------------
(***************************************************************************)
(* Design-level model of C04: every sequence of region assignments on a   *)
(* small array.  The implementation-shaped ImplAssign (extend, per-row    *)
(* setslice_with_length with left/right padding, reject growth) is        *)
(* checked against AssignVerdict after every step; GenSpec generates      *)
(* histories for replay on the real FSArray.                              *)
(***************************************************************************)
EXTENDS FSArray, TLC, Json
CONSTANTS MaxRows, MaxCols, HistDepth, Emit
VARIABLES rows, ncols, lastOk, hist

vars == <<rows, ncols, lastOk, hist>>
view == <<rows, ncols, lastOk>>
Plain == <<0, 0, 0, 0, 0, 0, 0, 0>>
Red == <<2, 0, 0, 0, 0, 0, 0, 0>>
BlankRowV == << <<<<>>, Plain>> >>
RowVals(w) == { <<>>, << <<<<97>>, Plain>> >>, << <<<<98>>, Red>> >>, << <<<<97>>, Plain>>, <<<<98>>, Red>> >>,
                << <<[k \in 1..w |-> 99], Red>> >>, << <<[k \in 1..w + 1 |-> 100], Plain>> >> }
RECURSIVE Blocks(_, _)
Blocks(L, n) == IF n = 0 THEN {<<>>} ELSE LET A == Blocks(L, n - 1) IN A \cup {Append(a, x) : a \in {b \in A : Len(b) = n - 1}, x \in L}

Init == /\ ncols \in 0..MaxCols /\ \E h \in 0..MaxRows : rows = [k \in 1..h |-> BlankRowV]
        /\ lastOk = "ok" /\ hist = << [k |-> "init", h |-> Len(rows), w |-> ncols] >>

Assign(r0, r1, c0, c1, block) ==
  LET out == ImplAssign(rows, ncols, BlankRowV, r0, r1, c0, c1, block)
  IN /\ rows' = out[2]
     /\ lastOk' = AssignVerdict(rows, out[2], ncols, out[1] # "ok", r0, r1, c0, c1, block)
     /\ hist' = Append(hist, [k |-> "assign", r0 |-> r0, r1 |-> r1, c0 |-> c0, c1 |-> c1, block |-> block])
     /\ UNCHANGED ncols

Next ==
  /\ Len(hist) < HistDepth
  /\ \E r0 \in 0..Len(rows) + 1, c0 \in 0..ncols :
       \E r1 \in r0..Min2(r0 + 2, Len(rows) + 2), c1 \in c0..ncols :
         \E block \in Blocks(RowVals(ncols), 2) : Assign(r0, r1, c0, c1, block)
Spec == Init /\ [][Next]_vars

GenNext ==
  /\ Len(hist) < HistDepth
  /\ \E r0 \in {RandomElement(0..Len(rows) + 1)}, c0 \in {RandomElement(0..ncols)} :
       \E r1 \in {RandomElement(r0..r0 + 3)}, c1 \in {RandomElement(c0..ncols)} :
         \E nb \in {RandomElement({r1 - r0, r1 - r0, r1 - r0, r1 - r0 + 1, Max2(0, r1 - r0 - 1)})} :
           \E block \in {[k \in 1..nb |-> RandomElement(RowVals(Max2(1, c1 - c0)) \cup RowVals(ncols))]} : Assign(r0, r1, c0, c1, block)
GenSpec == Init /\ [][GenNext]_vars

AssignOk == lastOk = "ok"
RowsNeverWider == RowsFit(rows, ncols)
EmitBehaviour == (Emit /\ Len(hist) = HistDepth) => PrintT(<<"BEH", ToJson(hist)>>)
=============================================================================

------------------------------ MODULE QueryTrace ------------------------------
(* L3 - trace validation for C18: one recorded call per item (query / vdiff). *)
EXTENDS CursorQuery, Json, IOUtils, TLC
VARIABLES i, v
Events == ndJsonDeserialize(IOEnv.TRACE_FILE)

V(clause, exact) == <<IF clause = "ok" THEN "ok" ELSE "fail", IF clause = "ok" THEN "" ELSE clause, IF exact THEN "exact" ELSE "drift">>
Judge(e) ==
  IF e.op = "query" THEN
     LET m == ImplQuery(e.extra \o e.report \o e.trailing)
     IN V(QueryVerdict(e), e.k = "ok" => (e.ret = <<m[1], m[2]>> /\ FlattenSeq(e.calls) = ArrivedAs(m[3], e.enc) /\ e.consumed = m[4]))
  ELSE IF e.op = "vdiff" THEN
     LET m == ImplDiff(e.top0, e.last0, e.rows, e.nested)
     \* e.free = 1: the nested call was injected at an arbitrary line of the outer call (not during a read); the
     \* L1 verdict is the same, the step-by-step model of the loop is not compared
     IN V(DiffVerdict(e), (e.k = "ok" /\ e.free = 0) => (e.top1 = m[1] /\ e.ret = m[2] /\ e.last1 = m[3] /\ e.queries = m[4]))
  ELSE <<"fail", "UnknownOp", "drift">>

Init == i \in 1..Len(Events) /\ v = <<"todo">>
Next == v = <<"todo">> /\ v' = Judge(Events[i]) /\ UNCHANGED i
Spec == Init /\ [][Next]_<<i, v>>
Report == (v = <<"todo">> \/ v = <<"ok", "", "exact">>) \/ PrintT(<<"V", i>> \o v)
=============================================================================

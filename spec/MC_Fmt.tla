------------------------------- MODULE MC_Fmt -------------------------------
(***************************************************************************)
(* Design-level model checking of the value algebra: for every layout of  *)
(* <= MaxRuns runs (texts of length 0..MaxLen over {a,b}, 3 attribute     *)
(* records) and every argument tuple of the bounded domain, the           *)
(* implementation-shaped model (FmtImpl) shows exactly the cells the      *)
(* property-level definition (FmtAbs) demands.                            *)
(* stage 0 -> pick the first run; stage k -> append a run or pick an op.  *)
(***************************************************************************)
EXTENDS FmtImpl, TLC
CONSTANTS MaxRuns, MaxLen, Ops
VARIABLES stage, f, e

Plain == <<0, 0, 0, 0, 0, 0, 0, 0>>
Red == <<2, 0, 0, 0, 0, 0, 0, 0>>
BoldOnBlue == <<0, 5, 2, 0, 0, 0, 0, 0>>
Atts3 == {Plain, Red, BoldOnBlue}
RECURSIVE TextsUpTo(_)
TextsUpTo(n) == IF n = 0 THEN {<<>>} ELSE LET P == TextsUpTo(n - 1) IN P \cup {Append(p, c) : p \in {q \in P : Len(q) = n - 1}, c \in {97, 98}}
RunsSet == {<<t, a>> : t \in TextsUpTo(MaxLen), a \in Atts3}
NewPool == { <<>>, << <<<<>>, Plain>> >>, << <<<<120>>, Plain>> >>, << <<<<120>>, Red>> >>,
             << <<<<120>>, Red>>, <<<<121, 122>>, BoldOnBlue>> >>, << <<<<>>, Red>>, <<<<120>>, Plain>> >> }
None == [op |-> "none"]

Args(ff) ==
  LET n == VLen(ff)
      B == (-n - 2)..(n + 2)
  IN  {[op |-> "slice", a |-> a, an |-> 0, b |-> b, bn |-> 0] : a \in B, b \in B}
 \cup {[op |-> "slice", a |-> 0, an |-> 1, b |-> b, bn |-> 0] : b \in B}
 \cup {[op |-> "slice", a |-> a, an |-> 0, b |-> 0, bn |-> 1] : a \in B}
 \cup {[op |-> "slice", a |-> 0, an |-> 1, b |-> 0, bn |-> 1]}
 \cup {[op |-> "index", i |-> i] : i \in {j \in B : PyIndexOk(Cells(ff), j)}}
 \cup {[op |-> "mul", n |-> k] : k \in 0..3}
 \cup {[op |-> "add", y |-> y] : y \in NewPool}
 \cup {[op |-> "join", items |-> its] : its \in {<<>>} \cup {<<x>> : x \in NewPool} \cup {<<x, y>> : x \in NewPool, y \in NewPool}}
 \cup {[op |-> "splice", new |-> nw, s |-> s, e |-> 0, en |-> 1] : nw \in NewPool, s \in 0..n + 2}
 \cup {[op |-> "splice", new |-> nw, s |-> s, e |-> ee, en |-> 0] : nw \in NewPool, s \in 0..n + 2, ee \in 0..n + 2}
 \cup {[op |-> "append", new |-> nw] : nw \in NewPool}

Init == stage = 0 /\ f = <<>> /\ e = None
Next ==
  \/ /\ e = None /\ stage < MaxRuns
     /\ \E r \in RunsSet : f' = Append(f, r)
     /\ stage' = stage + 1 /\ e' = e
  \/ /\ e = None
     /\ \E x \in {y \in Args(f) : y.op \in Ops /\ (y.op = "splice" => (y.en = 1 \/ y.s <= y.e))} : e' = x
     /\ UNCHANGED <<stage, f>>
Spec == Init /\ [][Next]_<<stage, f, e>>

ImplCells == 
  CASE e.op = "slice" -> Cells(ImplSlice(f, e.a, e.an, e.b, e.bn)) = AbsSlice(Cells(f), e.a, e.an, e.b, e.bn)
    [] e.op = "index" -> Cells(ImplIndex(f, e.i)) = AbsIndex(Cells(f), e.i)
    [] e.op = "mul" -> Cells(ImplMul(f, e.n)) = AbsMul(Cells(f), e.n)
    [] e.op = "add" -> /\ Cells(ImplAdd(f, e.y)) = AbsAdd(Cells(f), Cells(e.y))
                       /\ Cells(ImplAdd(e.y, f)) = AbsAdd(Cells(e.y), Cells(f))
    [] e.op = "join" -> Cells(ImplJoin(f, e.items)) = AbsJoin(Cells(f), [k \in 1..Len(e.items) |-> Cells(e.items[k])])
    [] e.op = "splice" -> Cells(ImplSplice(f, e.new, e.s, e.e, e.en)) = AbsSplice(Cells(f), Cells(e.new), e.s, e.e, e.en)
    [] e.op = "append" -> Cells(ImplAppend(f, e.new)) = AbsAppend(Cells(f), Cells(e.new))
    [] OTHER -> TRUE
ImplRefinesAbs == e = None \/ ImplCells
=============================================================================

------------------------------ MODULE PoolOps ------------------------------
(* C13 - the operation set of pool programs and the result cells (L1) of each modelled step. *)
EXTENDS FmtImpl

PPlain == <<0, 0, 0, 0, 0, 0, 0, 0>>
PRed == <<2, 0, 0, 0, 0, 0, 0, 0>>
POnBlue == <<0, 5, 2, 0, 0, 0, 0, 0>>
Seed == << << <<<<97, 98>>, PRed>> >>,
           << <<<<99>>, PPlain>>, <<<<32, 100>>, POnBlue>> >>,
           << <<<<>>, PRed>>, <<<<101, 10, 102>>, PPlain>> >>,
           << <<<<65317, 103>>, POnBlue>>, <<<<104, 769>>, PPlain>> >> >>       \* double-width and combining characters
StrPool == << <<>>, <<120>>, <<44, 32>>, <<65317>> >>                 \* plain str operands
AttMaps == << <<4, 0, 0, 0, 0, 0, 0, 0>>, <<0, 3, 3, 0, 0, 0, 0, 0>>, <<0, 0, 2, 0, 0, 3, 0, 0>> >>   \* override maps (0 = not named)
StrRuns(t) == << <<t, PPlain>> >>

\* result cells (L1) of one step; e: the history entry, p: pool before
StepCells(p, e) ==
  CASE e.op = "add" -> AbsAdd(Cells(p[e.a]), Cells(p[e.b]))
    [] e.op = "addstr" -> AbsAdd(Cells(p[e.a]), PlainCells(StrPool[e.n]))
    [] e.op = "raddstr" -> AbsAdd(PlainCells(StrPool[e.n]), Cells(p[e.a]))
    [] e.op = "mul" -> AbsMul(Cells(p[e.a]), e.n)
    [] e.op = "slice" -> AbsSlice(Cells(p[e.a]), e.n, 0, e.m, 0)
    [] e.op = "splice" -> AbsSplice(Cells(p[e.a]), Cells(p[e.b]), e.n, e.m, 0)
    [] e.op = "insert" -> AbsSplice(Cells(p[e.a]), PlainCells(StrPool[e.m]), e.n, 0, 1)
    [] e.op = "append" -> AbsAppend(Cells(p[e.a]), Cells(p[e.b]))
    [] e.op = "join" -> AbsJoin(Cells(p[e.a]), <<Cells(p[e.b]), PlainCells(StrPool[e.n]), Cells(p[e.b])>>)
    [] e.op = "withatts" -> AbsApplyCells(p[e.a], AttMaps[e.n])
    [] e.op = "removeatts" -> AbsRemoveCells(p[e.a], {FG, BOLD})
    [] e.op = "copy" -> Cells(p[e.a])
    [] e.op = "rewrap" -> Cells(p[e.a])
    [] OTHER -> <<>>
HasModel(op) == op \in {"add", "addstr", "raddstr", "mul", "slice", "splice", "insert", "append", "join", "withatts",
                        "removeatts", "copy", "rewrap"}
\* ops whose results the model does not compute (several results or str-defined): only immutability is judged
OtherOps == {"split", "splitlines", "ljust", "rjust", "newstr", "wslice", "wsplit", "upper", "strip", "linesplit", "setitem", "widthat", "eqraw", "iterate"}

=============================================================================

------------------------------ MODULE Tokenizer ------------------------------
(***************************************************************************)
(* C17 / C05, L2 - curtsies/escseqparse.py as coded, over code points:    *)
(*  the two regular expressions of peel_off_esc_code (multi-byte CSI with *)
(*  numeric parameters; two-byte ESC + [@-_]), the choice of the earlier  *)
(*  match, token_type's reading of the parameter string (a parameter      *)
(*  string with an empty field is left as a string, so no value is        *)
(*  recognised and the sequence cannot be parsed), and from_str's         *)
(*  fall-back to remove_ansi when parsing raises.                          *)
(***************************************************************************)
EXTENDS Scan

InR(c, lo, hi) == c >= lo /\ c <= hi
\* longest prefix of s from j matching (\d+;)*(\d+)? : returns the index after it
RECURSIVE NumPrefixEnd(_, _)
NumPrefixEnd(s, j) ==
  LET d == (CHOOSE n \in 0..Len(s) : (\A q \in j..j + n - 1 : q <= Len(s) /\ IsDigit(s[q])) /\ (j + n > Len(s) \/ ~IsDigit(s[j + n])))
  IN IF d = 0 THEN j
     ELSE IF j + d <= Len(s) /\ s[j + d] = 59 THEN NumPrefixEnd(s, j + d + 1) ELSE j + d
RECURSIVE SkipRange(_, _, _, _)
SkipRange(s, j, lo, hi) == IF j <= Len(s) /\ InR(s[j], lo, hi) THEN SkipRange(s, j + 1, lo, hi) ELSE j

\* m1 at position p: <<matched, index of the final byte, parameter string>>
M1At(s, p) ==
  LET start == IF s[p] = CSI8 THEN p + 1 ELSE IF s[p] = ESC /\ p + 1 <= Len(s) /\ s[p + 1] = LBR THEN p + 2 ELSE 0
  IN IF start = 0 THEN <<FALSE, 0, <<>>>>
     ELSE LET ne == NumPrefixEnd(s, start)
              ie == SkipRange(s, ne, 32, 47)
          IN IF ie <= Len(s) /\ InR(s[ie], 64, 126) THEN <<TRUE, ie, SubSeq(s, start, ne - 1)>> ELSE <<FALSE, 0, <<>>>>
M2At(s, p) == s[p] = ESC /\ p + 1 <= Len(s) /\ InR(s[p + 1], 64, 95)

\* parameter string -> does token_type find at least one known value?   (an empty string means [0])
Fields(ps) == LET semis == SelectSeq([k \in 1..Len(ps) |-> k], LAMBDA k : ps[k] = 59)
                  b == <<0>> \o semis \o <<Len(ps) + 1>>
              IN [k \in 1..Len(b) - 1 |-> SubSeq(ps, b[k] + 1, b[k + 1] - 1)]
RECURSIVE NumVal(_)
NumVal(ds) == IF ds = <<>> THEN 0 ELSE IF Len(ds) > 4 THEN 9999 ELSE NumVal(SubSeq(ds, 1, Len(ds) - 1)) * 10 + (ds[Len(ds)] - 48)
KnownSgrValue(n) == n \in {0, 1, 2, 3, 4, 5, 7, 39, 49} \cup (30..37) \cup (40..47)
SgrParsable(ps) ==
  IF ps = <<>> THEN TRUE
  ELSE IF \E k \in 1..Len(Fields(ps)) : Fields(ps)[k] = <<>> THEN FALSE      \* left as a string: its characters are no values
  ELSE \E k \in 1..Len(Fields(ps)) : KnownSgrValue(NumVal(Fields(ps)[k]))

\* parse(): <<ok, text>> ; scanning from position i, first match position at or after i
RECURSIVE ParseFrom(_, _)
ParseFrom(s, i) ==
  IF i > Len(s) THEN <<TRUE, <<>>>>
  ELSE LET P1 == {p \in i..Len(s) : M1At(s, p)[1]}
           P2 == {p \in i..Len(s) : M2At(s, p)}
           p1 == IF P1 = {} THEN 0 ELSE CHOOSE p \in P1 : \A q \in P1 : p <= q
           p2 == IF P2 = {} THEN 0 ELSE CHOOSE p \in P2 : \A q \in P2 : p <= q
       IN IF p1 = 0 /\ p2 = 0 THEN <<TRUE, SubSeq(s, i, Len(s))>>
          ELSE IF p1 # 0 /\ (p2 = 0 \/ p1 <= p2) THEN
               LET m == M1At(s, p1)
                   bad == s[m[2]] = 109 /\ ~SgrParsable(m[3])
                   r == ParseFrom(s, m[2] + 1)
               IN IF bad THEN <<FALSE, <<>>>> ELSE <<r[1], SubSeq(s, i, p1 - 1) \o r[2]>>
          ELSE LET r == ParseFrom(s, p2 + 2) IN <<r[1], SubSeq(s, i, p2 - 1) \o r[2]>>

\* remove_ansi(): (\x9B|\x1B\[)[0-?]*[ -\/]*[@-~] removed everywhere
RECURSIVE RemoveAnsiFrom(_, _)
RemoveAnsiFrom(s, i) ==
  IF i > Len(s) THEN <<>>
  ELSE LET start == IF s[i] = CSI8 THEN i + 1 ELSE IF s[i] = ESC /\ i + 1 <= Len(s) /\ s[i + 1] = LBR THEN i + 2 ELSE 0
           pe == IF start = 0 THEN 0 ELSE SkipRange(s, SkipRange(s, start, 48, 63), 32, 47)
       IN IF start # 0 /\ pe <= Len(s) /\ InR(s[pe], 64, 126) THEN RemoveAnsiFrom(s, pe + 1)
          ELSE <<s[i]>> \o RemoveAnsiFrom(s, i + 1)

HasCsiIntro(s) == (\E k \in 1..Len(s) : s[k] = CSI8) \/ (\E k \in 1..Len(s) - 1 : s[k] = ESC /\ s[k + 1] = LBR)
\* the text of fmtstr(s) / FmtStr.from_str(s)
ImplAnyText(s) ==
  IF ~HasCsiIntro(s) THEN s
  ELSE LET r == ParseFrom(s, 1) IN IF r[1] THEN r[2] ELSE RemoveAnsiFrom(s, 1)

\* the L1 clauses of C17 for a text result t of input s
C17Verdict(s, t) ==
  IF ~HasIntro(s) THEN (IF t # s THEN "PlainVerbatim" ELSE "ok")
  ELSE IF ~IsSubseq(t, s) THEN "OnlyRemoves"
  ELSE IF ~IsSubseq(MustKeep(s), t) THEN "KeepsOrdinaryText"
  ELSE IF OrdinaryCsi(s) /\ t # Strip(s) THEN "OrdinaryCsiStripped"
  ELSE "ok"
=============================================================================

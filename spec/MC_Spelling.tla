----------------------------- MODULE MC_Spelling -----------------------------
(***************************************************************************)
(* Design-level model checking of C14: over every specification of <= 3   *)
(* items drawn from a pool of spellings (valid, invalid, case variants,   *)
(* duplicates), the implementation-shaped parse_args (ParseArgs.tla)      *)
(* rejects exactly the invalid ones and produces exactly the override map *)
(* the property-level meaning (Spelling.tla) gives; equivalent spellings  *)
(* of a target map agree; a later value overrides an earlier one.         *)
(***************************************************************************)
EXTENDS ParseArgs, TLC
VARIABLES items

It(k, key, name, num, val) == [k |-> k, key |-> key, name |-> name, lname |-> name, num |-> num, val |-> val]
Pool == { It("pos", "", "red", 0, 0), It("pos", "", "on_blue", 0, 0), It("pos", "", "bold", 0, 0), It("pos", "", "gray", 0, 0),
          It("style", "", "blue", 0, 0), It("style", "", "underline", 0, 0), It("style", "", "on_black", 0, 0),
          It("kwname", "fg", "red", 0, 0), It("kwname", "bg", "blue", 0, 0), It("kwname", "fg", "on_red", 0, 0), It("kwname", "bg", "bold", 0, 0),
          It("kwnum", "fg", "", 31, 0), It("kwnum", "bg", "", 44, 0), It("kwnum", "fg", "", 40, 0), It("kwnum", "bg", "", 39, 0),
          It("bool", "bold", "", 0, 1), It("bool", "bold", "", 0, 0), It("bool", "invert", "", 0, 1), It("bool", "strike", "", 0, 1),
          It("pos", "", "reddish", 0, 0), It("pos", "", "on_", 0, 0), It("junk", "", "posint", 0, 0), It("junk", "", "kwunknown", 0, 0),
          It("junk", "", "stylenum", 0, 0),
          [It("pos", "", "RED", 0, 0) EXCEPT !.lname = "red"], [It("pos", "", "BOLD", 0, 0) EXCEPT !.lname = "bold"] }

\* at most one style= and at most one keyword per key can be written in one call
WellFormedCall(its) ==
  /\ Cardinality({j \in 1..Len(its) : its[j].k \in {"style"} \/ (its[j].k = "junk" /\ its[j].name = "stylenum")}) <= 1
  /\ \A j, l \in 1..Len(its) : j < l /\ IsKw(its[j]) /\ IsKw(its[l]) => its[j].key # its[l].key
  \* a style named positionally and switched off by keyword in the same call is contradictory; the
  \* statement promises nothing definite for it (curtsies lets the positional name win) - excluded
  /\ \A j, l \in 1..Len(its) : ~(its[j].k \in {"pos", "style"} /\ its[l].k = "bool" /\ its[l].key = its[j].lname /\ its[l].val = 0)

Init == items = <<>>
Next == Len(items) < 3 /\ \E it \in Pool : items' = Append(items, it) /\ WellFormedCall(items')
Spec == Init /\ [][Next]_items

Lowered0 == [j \in 1..Len(items) |-> [items[j] EXCEPT !.name = items[j].lname]]

\* L2 => L1: parse_args rejects exactly what the meaning calls invalid (case variants: either), same map otherwise
InvalidDetected == SpecInvalid(Lowered0) => ImplParseArgs(items)[1] = "ValueError"
EquivalentSpellings == ~SpecInvalid(items) => ImplParseArgs(items) = <<"ok", SpecMap(items)>>
OverrideLast == (~SpecInvalid(Lowered0) /\ SpecInvalid(items)) =>
                   (ImplParseArgs(items)[1] = "ValueError" \/ ImplParseArgs(items) = <<"ok", SpecMap(Lowered0)>>)
=============================================================================

-------------------------------- MODULE Term --------------------------------
(***************************************************************************)
(* The reference terminal: an xterm-like ANSI terminal as a value and a   *)
(* transition function over lexer tokens (harness/enc.py):                *)
(*   <<"t", cp>>  <<"m", params>>  <<"c", private, params, inter, final>> *)
(*   <<"e", ch>>  <<"i", ..>> (ignored malformed CSI)  <<"x", ...>>         *)
(* Written from ECMA-48 / the xterm control-sequence documentation, for   *)
(* the control functions blessed emits under TERM=xterm-256color.         *)
(*                                                                         *)
(* t.h, t.w      size                                                      *)
(* t.scr         [1..h -> [1..w -> cell]]   cell = <<cp, gr>>              *)
(* t.r, t.c      cursor (0-based)          t.pend  pending-wrap flag       *)
(* t.gr          graphic rendition         t.saved DECSC slot              *)
(* t.alt         alternate screen active   t.main  saved main screen       *)
(* t.vis         cursor visible            t.sb    scrollback (main only)  *)
(* t.scrolls     ghost: number of scrolls  t.replies DSR-6 answers         *)
(* t.bad         ghost: control functions this model does not know         *)
(*                                                                         *)
(* Pending wrap (xterm): printing in the last column leaves the cursor     *)
(* there with pend set; the next printable character wraps first.  CUP,    *)
(* CHA, CR, cursor moves and DECRC clear it; EL/ED do not.  Erasing uses   *)
(* the current background (BCE).                                           *)
(***************************************************************************)
EXTENDS Sgr, Width

BlankCell(gr) == <<32, <<0, gr[BG], 0, 0, 0, 0, 0, 0>>>>
Blank == <<32, DefaultGr>>
Junk == <<0, DefaultGr>>            \* what a resize may leave behind (worst case: everywhere)
BlankRow(w, gr) == [c \in 1..w |-> BlankCell(gr)]
BlankScr(h, w, gr) == [r \in 1..h |-> BlankRow(w, gr)]
JunkScr(h, w) == [r \in 1..h |-> [c \in 1..w |-> Junk]]

NewTerm(h, w) ==
  [h |-> h, w |-> w, scr |-> BlankScr(h, w, DefaultGr), r |-> 0, c |-> 0, pend |-> FALSE, gr |-> DefaultGr,
   saved |-> <<0, 0, DefaultGr, FALSE>>, alt |-> FALSE, main |-> <<>>, vis |-> TRUE, sb |-> <<>>,
   scrolls |-> 0, replies |-> <<>>, bad |-> 0]

Clamp(x, lo, hi) == IF x < lo THEN lo ELSE IF x > hi THEN hi ELSE x
P(ps, k, dflt) == IF Len(ps) >= k /\ ps[k] # 0 THEN ps[k] ELSE dflt

\* scroll the whole screen up by one line
ScrollUp(t) ==
  [t EXCEPT !.scr = [r \in 1..t.h |-> IF r < t.h THEN t.scr[r + 1] ELSE BlankRow(t.w, t.gr)],
            !.sb = IF t.alt THEN t.sb ELSE Append(t.sb, t.scr[1]),
            !.scrolls = t.scrolls + 1]

LineFeed(t) == LET u == [t EXCEPT !.pend = FALSE] IN IF t.r = t.h - 1 THEN ScrollUp(u) ELSE [u EXCEPT !.r = t.r + 1]

\* Character widths (Width.tla): a double-width character takes two cells, <<cp, gr>> and its right half <<0 - cp, gr>>;
\* a zero-width character takes none (it combines with the cell before it, which this model does not look into).
\* Writing over one half of a double-width character blanks the other half.
IsRightHalf(cell) == cell[1] < 0
HealRow(row, c, w) ==       \* row with the partner half of whatever occupies 1-based column c blanked
  [k \in 1..w |->
     IF k = c - 1 /\ c >= 2 /\ IsRightHalf(row[c]) THEN <<32, row[k][2]>>
     ELSE IF k = c + 1 /\ c + 1 <= w /\ IsRightHalf(row[k]) /\ ~IsRightHalf(row[c]) /\ row[k][1] = 0 - row[c][1] THEN <<32, row[k][2]>>
     ELSE row[k]]
PutNarrow(t, cp) ==
  LET u == IF t.pend THEN [LineFeed(t) EXCEPT !.c = 0] ELSE t
      healed == HealRow(u.scr[u.r + 1], u.c + 1, u.w)
      v == [u EXCEPT !.scr[u.r + 1] = [healed EXCEPT ![u.c + 1] = <<cp, u.gr>>]]
  IN IF u.c = u.w - 1 THEN [v EXCEPT !.pend = TRUE] ELSE [v EXCEPT !.c = u.c + 1, !.pend = FALSE]
PutWide(t, cp) ==
  LET u0 == IF t.pend THEN [LineFeed(t) EXCEPT !.c = 0] ELSE t
      u == IF u0.c = u0.w - 1 /\ u0.w >= 2 THEN [LineFeed(u0) EXCEPT !.c = 0] ELSE u0     \* no room for two cells: wraps first
      h1 == HealRow(u.scr[u.r + 1], u.c + 1, u.w)
      h2 == IF u.c + 2 <= u.w THEN HealRow(h1, u.c + 2, u.w) ELSE h1
      row == [k \in 1..u.w |-> IF k = u.c + 1 THEN <<cp, u.gr>> ELSE IF k = u.c + 2 THEN <<0 - cp, u.gr>> ELSE h2[k]]
      v == [u EXCEPT !.scr[u.r + 1] = row]
  IN IF u.c + 2 >= u.w THEN [v EXCEPT !.c = u.w - 1, !.pend = TRUE] ELSE [v EXCEPT !.c = u.c + 2, !.pend = FALSE]
PutChar(t, cp) == IF W(cp) = 0 THEN t ELSE IF W(cp) = 2 THEN PutWide(t, cp) ELSE PutNarrow(t, cp)

MoveTo(t, r, c) == [t EXCEPT !.r = Clamp(r, 0, t.h - 1), !.c = Clamp(c, 0, t.w - 1), !.pend = FALSE]

EraseCells(t, row, c1, c2) ==    \* 1-based columns c1..c2 of 1-based row (a double-width character cut by an edge goes entirely)
  LET r0 == t.scr[row]
      r1 == IF c1 >= 1 /\ c1 <= t.w THEN HealRow(r0, c1, t.w) ELSE r0
      r2 == IF c2 >= 1 /\ c2 <= t.w THEN HealRow(r1, c2, t.w) ELSE r1
  IN [t EXCEPT !.scr[row] = [c \in 1..t.w |-> IF c >= c1 /\ c <= c2 THEN BlankCell(t.gr) ELSE r2[c]]]
EraseRows(t, r1, r2) ==
  [t EXCEPT !.scr = [r \in 1..t.h |-> IF r >= r1 /\ r <= r2 THEN BlankRow(t.w, t.gr) ELSE t.scr[r]]]

EL(t, p) == IF p = 0 THEN EraseCells(t, t.r + 1, t.c + 1, t.w)
            ELSE IF p = 1 THEN EraseCells(t, t.r + 1, 1, t.c + 1)
            ELSE IF p = 2 THEN EraseCells(t, t.r + 1, 1, t.w)
            ELSE [t EXCEPT !.bad = t.bad + 1]
ED(t, p) == IF p = 0 THEN EraseRows(EraseCells(t, t.r + 1, t.c + 1, t.w), t.r + 2, t.h)
            ELSE IF p = 1 THEN EraseRows(EraseCells(t, t.r + 1, 1, t.c + 1), 1, t.r)
            ELSE IF p = 2 THEN EraseRows(t, 1, t.h)
            ELSE [t EXCEPT !.bad = t.bad + 1]

Csi(t, priv, ps, inter, fin) ==
  IF inter # "" THEN [t EXCEPT !.bad = t.bad + 1]
  ELSE IF priv = "" THEN
    CASE fin = "H" \/ fin = "f" -> MoveTo(t, P(ps, 1, 1) - 1, P(ps, 2, 1) - 1)
      [] fin = "G" -> MoveTo(t, t.r, P(ps, 1, 1) - 1)
      [] fin = "A" -> MoveTo(t, t.r - P(ps, 1, 1), t.c)
      [] fin = "B" -> MoveTo(t, t.r + P(ps, 1, 1), t.c)
      [] fin = "C" -> MoveTo(t, t.r, t.c + P(ps, 1, 1))
      [] fin = "D" -> MoveTo(t, t.r, t.c - P(ps, 1, 1))
      [] fin = "d" -> MoveTo(t, P(ps, 1, 1) - 1, t.c)
      [] fin = "K" -> EL(t, P(ps, 1, 0))
      [] fin = "J" -> ED(t, P(ps, 1, 0))
      [] fin = "t" -> t                                          \* window manipulation (title stack): no effect on the grid
      [] fin = "n" -> IF ps = <<6>> THEN [t EXCEPT !.replies = Append(t.replies, <<t.r + 1, t.c + 1>>)]
                      ELSE [t EXCEPT !.bad = t.bad + 1]
      [] OTHER -> [t EXCEPT !.bad = t.bad + 1]
  ELSE IF priv = "?" /\ (fin = "h" \/ fin = "l") /\ Len(ps) = 1 THEN
    CASE ps[1] = 25 -> [t EXCEPT !.vis = (fin = "h")]
      [] ps[1] = 12 -> t                                          \* cursor blink
      [] ps[1] = 1049 ->
           IF fin = "h" THEN
             (IF t.alt THEN t
              ELSE [t EXCEPT !.alt = TRUE, !.main = <<t.scr>>, !.saved = <<t.r, t.c, t.gr, t.pend>>,
                             !.scr = BlankScr(t.h, t.w, t.gr)])
           ELSE
             (IF ~t.alt THEN t
              ELSE [t EXCEPT !.alt = FALSE, !.scr = t.main[1], !.main = <<>>,
                             !.r = t.saved[1], !.c = t.saved[2], !.gr = t.saved[3], !.pend = t.saved[4]])
      [] OTHER -> [t EXCEPT !.bad = t.bad + 1]
  ELSE [t EXCEPT !.bad = t.bad + 1]

Apply(t, tok) ==
  CASE tok[1] = "t" ->
         (IF tok[2] >= 32 /\ tok[2] # 127 THEN PutChar(t, tok[2])
          ELSE IF tok[2] = 10 THEN LineFeed(t)
          ELSE IF tok[2] = 13 THEN [t EXCEPT !.c = 0, !.pend = FALSE]
          ELSE IF tok[2] = 8 THEN [t EXCEPT !.c = IF t.c > 0 THEN t.c - 1 ELSE 0, !.pend = FALSE]
          ELSE IF tok[2] = 7 THEN t
          ELSE [t EXCEPT !.bad = t.bad + 1])
    [] tok[1] = "m" -> [t EXCEPT !.gr = ApplySgr(t.gr, tok[2])]
    [] tok[1] = "c" -> Csi(t, tok[2], tok[3], tok[4], tok[5])
    [] tok[1] = "i" -> t        \* a malformed CSI sequence: swallowed, nothing happens
    [] tok[1] = "e" ->
         (IF tok[2] = "7" THEN [t EXCEPT !.saved = <<t.r, t.c, t.gr, t.pend>>]
          ELSE IF tok[2] = "8" THEN [t EXCEPT !.r = Clamp(t.saved[1], 0, t.h - 1), !.c = Clamp(t.saved[2], 0, t.w - 1),
                                              !.gr = t.saved[3], !.pend = t.saved[4]]
          ELSE [t EXCEPT !.bad = t.bad + 1])
    [] OTHER -> [t EXCEPT !.bad = t.bad + 1]

ApplyAll(t, toks) == FoldLeft(Apply, t, toks)

\* a resize to h x w: the window size changes, the screen holds arbitrary junk, cursor somewhere
Resize(t, h, w, r, c) ==
  [t EXCEPT !.h = h, !.w = w, !.scr = JunkScr(h, w), !.r = Clamp(r, 0, h - 1), !.c = Clamp(c, 0, w - 1), !.pend = FALSE,
            !.saved = <<Clamp(t.saved[1], 0, h - 1), Clamp(t.saved[2], 0, w - 1), t.saved[3], FALSE>>]

\* what a screen showing `rows` (a sequence of cell lists) from the top looks like, clipped to h x w
ExpectedScr(rows, h, w) ==
  [r \in 1..h |-> [c \in 1..w |-> IF r <= Len(rows) /\ c <= Len(rows[r]) THEN rows[r][c] ELSE Blank]]
=============================================================================

----------------------------- MODULE FSArrayTrace -----------------------------
(* L3 - trace validation for C04: histories of region assignments / reads on a real FSArray,
   the full row list recorded after every step. *)
EXTENDS FSArray, Json, IOUtils, TLC
VARIABLES i, l, rows, v, conf

Traces == ndJsonDeserialize(IOEnv.TRACE_FILE)
vars == <<i, l, rows, v, conf>>
Init == /\ i \in 1..Len(Traces) /\ l = 1 /\ rows = Traces[i].rows0
        /\ v = <<"ok", "", 0>> /\ conf = "exact"
Fail(clause) == IF v[1] = "ok" /\ clause # "ok" THEN <<"fail", clause, l>> ELSE v
Blk(b) == [k \in 1..Len(b) |-> b[k].v]

Next ==
  /\ l <= Len(Traces[i].ev)
  /\ l' = l + 1 /\ i' = i
  /\ LET e == Traces[i].ev[l]
         n == Traces[i].w
     IN CASE e.k = "assign" ->
               LET out == ImplAssignS(rows, n, Traces[i].blank, e.r0, e.r1, e.c0, e.c1, Blk(e.block), [k \in 1..Len(e.block) |-> e.block[k].k = "s"])
               IN /\ v' = Fail(AssignVerdict(rows, e.rows, n, e.exc # "", e.r0, e.r1, e.c0, e.c1, Blk(e.block)))
                  /\ conf' = IF out[2] = e.rows /\ (out[1] = "ok") = (e.exc = "") THEN conf ELSE "drift"
                  /\ rows' = e.rows
          [] e.k = "read" ->
               /\ v' = Fail(IF e.rows # rows THEN "ReadChangedTheArray"
                            ELSE IF e.exc # "" THEN "ReadRaised"
                            ELSE ReadVerdict(rows, n, e.r0, e.r1, e.c0, e.c1, e.got))
               /\ UNCHANGED <<rows, conf>>
          [] e.k = "rowread" ->
               /\ v' = Fail(IF e.rows # rows THEN "ReadChangedTheArray" ELSE IF e.exc # "" THEN "ReadRaised"
                            ELSE RowReadVerdict(rows, n, e.r, e.got))
               /\ UNCHANGED <<rows, conf>>
          [] e.k = "make" ->
               /\ v' = Fail(MakeVerdict(Blk(e.strings), e.width, e.exc # "", e.rows, e.ncols))
               /\ rows' = rows /\ conf' = conf
          [] OTHER -> /\ v' = Fail("UnknownEvent") /\ UNCHANGED <<rows, conf>>
Spec == Init /\ [][Next]_vars
Report == (l <= Len(Traces[i].ev) \/ (v[1] = "ok" /\ conf = "exact")) \/ PrintT(<<"V", i>> \o v \o <<conf>>)
=============================================================================

------------------------------ MODULE FSArray ------------------------------
(***************************************************************************)
(* C04 - FSArray region assignment.                                       *)
(* An array is <<rows, ncols>>: rows is a sequence of run lists (FmtStr)  *)
(* none longer than ncols; what a row *shows* is its cells followed by    *)
(* implicit blanks up to ncols.                                           *)
(* L1: AssignVerdict(before, after, raised, r0, r1, c0, c1, block)        *)
(* L2: ImplAssign mirrors FSArray.__setitem__ / setslice_with_length.     *)
(***************************************************************************)
EXTENDS FmtImpl

BlankC == <<32, DefaultGr>>
Show(row, n) == LET cs == Cells(row) IN [c \in 1..n |-> IF c <= Len(cs) THEN cs[c] ELSE BlankC]
ShowGrid(rows, n) == [r \in 1..Len(rows) |-> Show(rows[r], n)]
RowsFit(rows, n) == \A r \in 1..Len(rows) : VLen(rows[r]) <= n

\* the statement's error conditions for a[r0:r1, c0:c1] = block (0-based half-open bounds, c1 <= ncols)
MustFail(rows, n, r0, r1, c0, c1, block) ==
  \/ Len(block) # r1 - r0                                                    \* wrong number of rows
  \/ \E k \in 1..Len(block) :
        \/ c0 + VLen(block[k]) > n                                            \* would reach past the array's width
        \/ /\ VLen(block[k]) > c1 - c0                                        \* longer than the region ...
           /\ r0 + k <= Len(rows) /\ VLen(rows[r0 + k]) > c1                  \* ... into existing content beyond it
\* neither promised to fail nor to succeed: a row longer than the region that only spills into blank cells
MayFail(rows, n, r0, r1, c0, c1, block) == \E k \in 1..Len(block) : VLen(block[k]) > c1 - c0

\* what the grid must show after a successful assignment
ExpectShow(rows, n, r0, r1, c0, c1, block) ==
  LET h == Max2(Len(rows), r1)
      old(r) == IF r <= Len(rows) THEN Show(rows[r], n) ELSE [c \in 1..n |-> BlankC]
  IN [r \in 1..h |->
        IF r > r0 /\ r <= r1
        THEN LET b == Cells(block[r - r0])
                 w == Max2(c1 - c0, Len(b))          \* a tolerated over-long row shows itself from c0
             IN [c \in 1..n |-> IF c > c0 /\ c <= c0 + w
                                THEN (IF c - c0 <= Len(b) THEN b[c - c0] ELSE BlankC)
                                ELSE old(r)[c]]
        ELSE old(r)]

AssignVerdict(before, after, n, raised, r0, r1, c0, c1, block) ==
  IF c1 - c0 <= 0 \/ r1 - r0 <= 0 THEN      \* empty region: nothing to show; the array may only grow with blank rows
       (IF raised THEN (IF after = before THEN "ok" ELSE "ErrorChangedTheArray")
        ELSE IF ~IsPrefixOf(ShowGrid(before, n), ShowGrid(after, n)) THEN "EmptyRegionChangedCells"
        ELSE IF \E r \in Len(before) + 1..Len(after) : Show(after[r], n) # [c \in 1..n |-> BlankC] THEN "GrowsWithBlankRows"
        \* a region with rows but no columns that reaches past the last row still makes the array grow to it
        ELSE IF r1 - r0 > 0 /\ Len(after) # Max2(Len(before), r1) THEN "GrowsExactlyToRegion"
        ELSE "ok")
  ELSE IF MustFail(before, n, r0, r1, c0, c1, block) THEN
       (IF ~raised THEN "BadBlockMustRaise" ELSE IF ShowGrid(after, n) # ShowGrid(before, n) \/ Len(after) # Len(before) THEN "ErrorChangedTheArray" ELSE "ok")
  ELSE IF raised THEN
       (IF ~MayFail(before, n, r0, r1, c0, c1, block) THEN "ValidAssignmentRaised"
        ELSE IF ShowGrid(after, n) # ShowGrid(before, n) \/ Len(after) # Len(before) THEN "ErrorChangedTheArray" ELSE "ok")
  ELSE IF ~RowsFit(after, n) THEN "RowWiderThanArray"
  ELSE IF Len(after) # Max2(Len(before), r1) THEN "GrowsExactlyToRegion"
  ELSE IF ShowGrid(after, n) # ExpectShow(before, n, r0, r1, c0, c1, block) THEN "RegionShowsBlockRestUnchanged"
  ELSE "ok"

\* reading a region back: what the cells show, modulo implicit trailing blanks
ReadVerdict(rows, n, r0, r1, c0, c1, got) ==
  LET want == [r \in 1..(Min2(r1, Len(rows)) - r0) |-> SubSeq(Show(rows[r0 + r], n), c0 + 1, Min2(c1, n))]
      pad(cs, w) == [c \in 1..w |-> IF c <= Len(cs) THEN cs[c] ELSE BlankC]
  IN IF Len(got) # Len(want) THEN "ReadRowCount"
     ELSE IF \E r \in 1..Len(want) : Len(Cells(got[r])) > Len(want[r]) \/ pad(Cells(got[r]), Len(want[r])) # want[r] THEN "ReadShowsCells"
     ELSE "ok"

\* fsarray(strings, width): width = -1 when omitted.  The array's rows must show the strings; a string longer
\* than an explicit width is an error.
MakeVerdict(strings, width, raised, rows, ncols) ==
  LET maxlen == IF strings = <<>> THEN 0 ELSE CHOOSE m \in {VLen(strings[k]) : k \in 1..Len(strings)} : \A k \in 1..Len(strings) : VLen(strings[k]) <= m
      w == IF width = -1 THEN maxlen ELSE width
  IN IF width # -1 /\ maxlen > width THEN (IF raised THEN "ok" ELSE "TooLongStringMustRaise")
     ELSE IF raised THEN "ValidConstructionRaised"
     ELSE IF ncols # w THEN "MakeWidth"
     ELSE IF Len(rows) # Len(strings) THEN "MakeHeight"
     ELSE IF ~RowsFit(rows, w) THEN "RowWiderThanArray"
     ELSE IF ShowGrid(rows, w) # [k \in 1..Len(strings) |-> Show(strings[k], w)] THEN "RowsShowTheStrings"
     ELSE "ok"

\* reading one row back: a[r] must show what the row shows
RowReadVerdict(rows, n, r, got) == IF Show(got, n) # Show(rows[r + 1], n) THEN "RowReadShowsCells" ELSE "ok"

(* ---------------- L2 ---------------- *)
Spaces(k) == << <<[j \in 1..k |-> 32], NoAtts>> >>
\* FmtStr.setslice_with_length(start, end, fs, length): <<status, row>>.  isstr: fs was handed over as a plain str -
\* the padding spaces are then concatenated to it as text (one unformatted run); a FmtStr gets them as runs of their own
ImplSetslice(row, s, e, v, n, isstr) ==
  LET l == VLen(row)
      txt(k) == [j \in 1..k |-> 32]
      lead == IF l < s THEN s - l ELSE 0
      v1 == IF lead = 0 THEN v ELSE IF isstr THEN << <<txt(lead) \o Text(v), NoAtts>> >> ELSE Spaces(lead) \o v
      short == e - s - VLen(v1)
      v2 == IF l > e /\ short > 0 THEN (IF isstr THEN << <<Text(v1) \o txt(short), NoAtts>> >> ELSE v1 \o Spaces(short)) ELSE v1
      bad == l > e /\ VLen(v2) # e - s
      res == ImplSplice(row, v2, s, e, 0)
  IN IF bad THEN <<"AssertionError", row>>
     ELSE IF VLen(res) > n THEN <<"ValueError", row>> ELSE <<"ok", res>>

\* FSArray.__setitem__ for a[r0:r1, c0:c1] = block; blank = the constructor's empty row; strs[k]: block row k is a
\* plain str; returns <<status, rows>>
ImplAssignS(rows, n, blank, r0, r1, c0, c1, block, strs) ==
  LET grown == rows \o [k \in 1..Max2(0, r1 - Len(rows)) |-> blank]
      res(k) == ImplSetslice(grown[r0 + k], c0, c1, block[k], n, strs[k])
  IN IF c1 - c0 <= 0 \/ r1 - r0 <= 0 THEN <<"ok", grown>>
     ELSE IF Len(block) # r1 - r0 THEN <<"ValueError", rows>>
     ELSE IF \E k \in 1..Len(block) : res(k)[1] # "ok" THEN <<"Error", rows>>
     ELSE <<"ok", [r \in 1..Len(grown) |-> IF r > r0 /\ r <= r1 THEN res(r - r0)[2] ELSE grown[r]]>>
ImplAssign(rows, n, blank, r0, r1, c0, c1, block) ==
  ImplAssignS(rows, n, blank, r0, r1, c0, c1, block, [k \in 1..Len(block) |-> FALSE])
=============================================================================

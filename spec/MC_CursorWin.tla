----------------------------- MODULE MC_CursorWin -----------------------------
(***************************************************************************)
(* Design-level model of C07: a terminal that already holds k lines of    *)
(* output, a CursorAwareWindow entered with the cursor where that output  *)
(* ended, then every sequence of renders (arrays of height 0..H+2 over a  *)
(* few representative lines, cursor on the first/last array cell).        *)
(* Checked: CaRenderVerdict = "ok" after every render (history intact,    *)
(* array shown from the top usable row, rows below blank, scroll count,   *)
(* return value, cursor) and CacheTruth.  GenSpec = behaviour generator.  *)
(***************************************************************************)
EXTENDS CursorWin, TLC, Json
CONSTANTS Sizes, MaxPre, HistDepth, Emit
VARIABLES term, cache, top, lastHW, hide, phase, lastOk, hist

vars == <<term, cache, top, lastHW, hide, phase, lastOk, hist>>
view == <<term, cache, top, lastHW, hide, phase, lastOk>>
SizesQ == {<<2, 2>>}
SizesA == {<<2, 2>>, <<3, 2>>, <<3, 3>>}
SizesB == {<<3, 3>>, <<4, 5>>, <<2, 4>>}

Plain == <<0, 0, 0, 0, 0, 0, 0, 0>>
Red == <<2, 0, 0, 0, 0, 0, 0, 0>>
LinesFor(w) == { <<>>, << <<<<97>>, Plain>> >>, << <<[k \in 1..w |-> 98], Red>> >> }
RECURSIVE Arrays(_, _)
Arrays(L, n) == IF n = 0 THEN {<<>>} ELSE LET A == Arrays(L, n - 1) IN A \cup {Append(a, x) : a \in {b \in A : Len(b) = n - 1}, x \in L}

\* k lines "p<CR><LF>" of pre-existing output
PreToks(k) == FlattenSeq([j \in 1..k |-> << <<"t", 112>>, <<"t", 13>>, <<"t", 10>> >>])

Init == /\ \E s \in Sizes : term = NewTerm(s[1], s[2])
        /\ cache = CaNoCache /\ top = 0 /\ lastHW = <<0, 0>> /\ hide \in BOOLEAN /\ phase = "fresh" /\ lastOk = "ok"
        /\ hist = << [k |-> "init", h |-> term.h, w |-> term.w, hide |-> IF hide THEN 1 ELSE 0] >>

Setup(k) == /\ phase = "fresh" /\ phase' = "setup"
            /\ term' = ApplyAll(term, PreToks(k))
            /\ hist' = Append(hist, [k |-> "setup", n |-> k])
            /\ UNCHANGED <<cache, top, lastHW, hide, lastOk>>
Enter == /\ phase = "setup" /\ phase' = "in"
         /\ top' = term.r
         /\ term' = ApplyAll(term, << <<"c", "", <<6>>, "", "n">> >> \o (IF hide THEN <<HideTok>> ELSE <<>>))
         /\ hist' = Append(hist, [k |-> "enter"])
         /\ UNCHANGED <<cache, lastHW, hide, lastOk>>
Render(arr, cp) ==
  /\ phase = "in"
  /\ LET c0 == IF lastHW # <<term.h, term.w>> THEN CaNoCache ELSE cache
         out == ImplCaRender(c0, top, arr, cp, term.h, term.w, hide)
         after == ApplyAll(term, out[1])
     IN /\ term' = after /\ cache' = out[2] /\ top' = out[3]
        /\ lastOk' = CaRenderVerdict(term, after, top, arr, cp, out[4])
  /\ lastHW' = <<term.h, term.w>>
  /\ hist' = Append(hist, [k |-> "render", arr |-> arr, cp |-> cp])
  /\ UNCHANGED <<hide, phase>>

CPs(arr) == IF arr = <<>> THEN {<<0, 0>>} ELSE {<<0, 0>>, <<Len(arr) - 1, Max2(0, VLen(arr[Len(arr)]) - 1)>>}
Next ==
  /\ Len(hist) < HistDepth
  /\ \/ \E k \in 0..MaxPre : Setup(k)
     \/ Enter
     \/ \E arr \in Arrays(LinesFor(term.w), term.h + 1) : \E cp \in CPs(arr) : Render(arr, cp)
Spec == Init /\ [][Next]_vars

GenNext ==
  /\ Len(hist) < HistDepth
  /\ IF phase = "fresh" THEN \E k \in {RandomElement(0..MaxPre)} : Setup(k)
     ELSE IF phase = "setup" THEN Enter
     ELSE \E n \in {RandomElement(0..term.h + 2)} :
            \E arr \in {[j \in 1..n |-> RandomElement(LinesFor(term.w))]} :
              \E cp \in {RandomElement(CPs(arr))} : Render(arr, cp)
GenSpec == Init /\ [][GenNext]_vars

RenderOk == lastOk = "ok"
CacheTruth ==
  (phase = "in" /\ lastHW = <<term.h, term.w>>) =>
    \A r \in 1..Min2(Len(cache[1]), term.h) :
       /\ cache[1][r][1] = "line" => term.scr[r] = PadRow(RowCells(cache[1][r][2]), term.w)
       /\ cache[1][r][1] = "blank" => term.scr[r] = BlankRow(term.w, DefaultGr)
EmitBehaviour == (Emit /\ Len(hist) = HistDepth) => PrintT(<<"BEH", ToJson(hist)>>)
=============================================================================

------------------------------ MODULE FmtJudge ------------------------------
(***************************************************************************)
(* Dispatch of one recorded event of the FmtStr algebra to the L1 clauses *)
(* (verdict) and the L2 model (conformance).                              *)
(* A result record is [k |-> "ok" | "exc", v |-> runs, t |-> exception    *)
(* class, n |-> len(result), s |-> result.s]                              *)
(***************************************************************************)
EXTENDS ColorStr, FmtImpl, Spelling, Parse, Tokenizer, Splitter, StrMethods

V(clause, exact) == <<IF clause = "ok" THEN "ok" ELSE "fail", IF clause = "ok" THEN "" ELSE clause,
                      IF exact THEN "exact" ELSE "drift">>

\* len()/.s agree with the runs, and the result's (possibly memoised) terminal string is the one a value freshly
\* built from the same runs has (res.fr, a fact recorded by the harness: 1 = identical)
Consistent(res) == Text(res.v) = res.s /\ res.n = Len(res.s) /\ res.fr = 1

\* a value-returning operation: must not raise, must show `cells`, len()/.s must agree with the runs
JudgeValue(pfx, res, cells, impl) ==
  IF res.k # "ok" THEN V(pfx \o ".Raised", FALSE)
  ELSE IF Cells(res.v) # cells THEN V(pfx \o ".Cells", FALSE)
  ELSE IF ~Consistent(res) THEN V(pfx \o ".LenText", FALSE)
  ELSE V("ok", res.v = impl)

(* ---------------------------------------------------------------- C01 *)
JudgeStr(e) ==
  LET c == C01Verdict(e.f, e.toks)
      c2 == IF c # "ok" THEN c ELSE C01Verdict(e.f, e.toks2)
  IN V(c2, e.toks = ImplStr(e.f) /\ e.toks2 = e.toks)

(* ---------------------------------------------------------------- C06 *)
JudgeSlice(e) ==
  JudgeValue("Slice", e.res, AbsSlice(Cells(e.f), e.a, e.an, e.b, e.bn), ImplSlice(e.f, e.a, e.an, e.b, e.bn))

JudgeIndex(e) ==
  IF AbsIndexRaises(Cells(e.f), e.i)
  THEN IF e.res.k = "exc" THEN V("ok", e.res.t = "IndexError") ELSE V("Index.MustRaise", FALSE)
  ELSE JudgeValue("Index", e.res, AbsIndex(Cells(e.f), e.i), ImplIndex(e.f, e.i))

\* x + y, str + f, f + str, and the augmented form x += y (which must leave another reference to x as it was)
JudgeAdd(e) ==
  LET j == JudgeValue("Add", e.res, AbsAdd(Cells(e.x.v), Cells(e.y.v)), ImplAdd(e.x.v, e.y.v))
  IN IF j[1] = "ok" /\ (e.x2 # e.x.v \/ e.y2 # e.y.v) THEN V("Add.OperandChanged", FALSE) ELSE j
JudgeMul(e) == JudgeValue("Mul", e.res, AbsMul(Cells(e.f), e.n), ImplMul(e.f, e.n))
JudgeJoin(e) ==
  LET items == [k \in 1..Len(e.items) |-> e.items[k].v]
  IN JudgeValue("Join", e.res, AbsJoin(Cells(e.sep), [k \in 1..Len(items) |-> Cells(items[k])]),
                ImplJoin(e.sep, items))

(* ---------------------------------------------------------------- C09 *)
JudgeSplice(e) ==
  LET j == JudgeValue("Splice", e.res, AbsSplice(Cells(e.f), Cells(e.new.v), e.s, e.e, e.en),
                      ImplSplice(e.f, e.new.v, e.s, e.e, e.en))
  IN IF j[1] = "ok" /\ e.f2 # e.f THEN V("Splice.OperandChanged", FALSE) ELSE j
JudgeAppend(e) ==
  LET j == JudgeValue("Append", e.res, AbsAppend(Cells(e.f), Cells(e.new.v)), ImplAppend(e.f, e.new.v))
  IN IF j[1] = "ok" /\ e.f2 # e.f THEN V("Append.OperandChanged", FALSE) ELSE j


(* ---------------------------------------------------------------- C14 *)
Lowered(items) == [j \in 1..Len(items) |-> [items[j] EXCEPT !.name = items[j].lname]]
ApplyRuns(f, m) == [k \in 1..Len(f) |-> <<f[k][1], ApplyAtts(f[k][2], m)>>]

\* fold the steps: <<status, runs, caseOnly>>; status "ok" | "invalid"
RECURSIVE StepsFrom(_, _, _, _)
StepsFrom(steps, j, f, caseOnly) ==
  IF j > Len(steps) THEN <<"ok", f, caseOnly>>
  ELSE LET low == Lowered(steps[j].items)
       IN IF SpecInvalid(low) THEN <<"invalid", f, caseOnly>>
          ELSE StepsFrom(steps, j + 1, ApplyRuns(f, SpecMap(low)), caseOnly \/ SpecInvalid(steps[j].items))

\* m: what shared_atts reports (0 not reported, else 1 + raw value code) - every character must have that value.
\* Values are compared as a reader of the mapping sees them: absent and explicit False are the same (nothing shown),
\* True is another value, and an explicit None (a style forwarded as `bold=flag_or_None`, code 3) is a third one - a
\* character without the attribute does not "have" None.
SharedOk(f, m) ==
  LET norm(v, i) == IF i > 2 /\ v = 1 THEN 0 ELSE v
  IN \A i \in AttIdx : m[i] # 0 => \A r \in 1..Len(f) : f[r][1] = <<>> \/ norm(f[r][2][i], i) = norm(m[i] - 1, i)

JudgeApply(e) ==
  LET r == StepsFrom(e.steps, 1, e.base.v, FALSE)
  IN IF e.res.k = "ok" /\ ~SharedOk(e.res.v, e.rm) THEN V("Apply.SharedOfResult", FALSE)   \* what the result then says it shares
     ELSE IF r[1] = "invalid"
     THEN IF e.res.k = "exc" /\ e.res.t = "ValueError" THEN V("ok", TRUE)
          ELSE IF e.res.k = "exc" THEN V("Apply.InvalidWrongError", FALSE) ELSE V("Apply.InvalidAccepted", FALSE)
     ELSE IF r[3] /\ e.res.k = "exc" /\ e.res.t = "ValueError" THEN V("ok", FALSE)   \* case variant rejected: allowed
     ELSE JudgeValue("Apply", e.res, Cells(r[2]), r[2])

NameSet(names) == {i \in AttIdx : \E j \in 1..Len(names) : names[j] = <<"fg", "bg", "bold", "dark", "italic", "underline", "blink", "invert">>[i]}
JudgeRemove(e) ==
  JudgeValue("Remove", e.res, AbsRemoveCells(e.f, NameSet(e.names)),
             [k \in 1..Len(e.f) |-> <<e.f[k][1], [i \in AttIdx |-> IF i \in NameSet(e.names) THEN 0 ELSE e.f[k][2][i]]>>])

\* weakest reading of "uniformly formatted": every run (empty ones included) has the same display attributes
UniformRuns(f) == f # <<>> /\ \A k \in 1..Len(f) : Disp(f[k][2]) = Disp(f[1][2])
JudgeNewStr(e) ==
  IF e.res.k # "ok" THEN V("NewStr.Raised", FALSE)
     ELSE IF Text(e.res.v) # e.t THEN V("NewStr.Text", FALSE)
     ELSE IF UniformRuns(e.f) /\ Cells(e.res.v) # [i \in 1..Len(e.t) |-> <<e.t[i], Disp(e.f[1][2])>>] THEN V("NewStr.Formatting", FALSE)
     ELSE IF ~Consistent(e.res) THEN V("NewStr.LenText", FALSE)
     ELSE V("ok", TRUE)

JudgeShared(e) ==
  IF e.k = "exc" THEN V("ok", FALSE)     \* nothing reported
  ELSE IF ~SharedOk(e.f, e.m) THEN V("Shared.NotShared", FALSE)
  ELSE V("ok", TRUE)

(* ---------------------------------------------------------------- C19 *)
JudgeEq(e) ==
  LET same == e.strx = e.stry
      b(x) == IF x THEN 1 ELSE 0
  IN IF e.eq # b(same) THEN V("Eq.ExactlyWhenSameTerminalString", FALSE)
     ELSE IF e.req # e.eq THEN V("Eq.Symmetric", FALSE)
     ELSE IF e.ne # 1 - e.eq THEN V("Eq.NeIsNotEq", FALSE)
     ELSE IF e.eq = 1 /\ e.heq # 1 THEN V("Eq.HashCoherent", FALSE)
     ELSE IF e.inset # e.eq THEN V("Eq.SetMembership", FALSE)
     ELSE IF e.indict # e.eq THEN V("Eq.DictKey", FALSE)
     ELSE V("ok", TRUE)

JudgeRepr(e) ==
  IF e.shape # 1 THEN V("Repr.NotAnExpressionOverFmtfuncs", FALSE)
  ELSE IF e.ev.k # "ok" THEN V("Repr.DoesNotEvaluate", FALSE)
  ELSE IF Cells(e.ev.v) # Cells(e.f) THEN V("Repr.RoundTrip", FALSE)
  ELSE IF e.evshows # e.fshows THEN V("Repr.EvaluatesToWhatTheValueDisplays", FALSE)   \* the terminal strings, lexed: same characters under the same graphic state
  ELSE V("ok", TRUE)

(* ---------------------------------------------------------------- C05 *)
JudgeRoundTrip(e) ==
  IF e.res.k # "ok" THEN V("RoundTrip.Raised", FALSE)
  ELSE IF Cells(e.res.v) # Cells(e.f) THEN V("RoundTrip.Cells", FALSE)
  ELSE IF ~Consistent(e.res) THEN V("RoundTrip.LenText", FALSE)
  ELSE V("ok", e.res.v = ImplParse(e.toks))
JudgeParse(e) ==
  IF ~InGrammar(e.toks) THEN V("Parse.NotInGrammar", FALSE)
  ELSE JudgeValue("Parse", e.res, AbsParseCells(e.toks), ImplParse(e.toks))

(* ---------------------------------------------------------------- C17 *)
Unformatted(f) == \A k \in 1..Len(f) : f[k][2] = NoAtts
JudgeAny(e) ==
  IF e.res.k # "ok" THEN V("Any.Raised", FALSE)
  ELSE IF ~HasIntro(e.s) THEN
       (IF e.res.s # e.s THEN V("Any.PlainVerbatim", FALSE)
        ELSE IF ~Unformatted(e.res.v) THEN V("Any.PlainUnformatted", FALSE)
        ELSE V("ok", e.res.s = ImplAnyText(e.s)))
  ELSE IF ~IsSubseq(e.res.s, e.s) THEN V("Any.OnlyRemoves", FALSE)
  ELSE IF ~IsSubseq(MustKeep(e.s), e.res.s) THEN V("Any.KeepsOrdinaryText", FALSE)
  ELSE IF OrdinaryCsi(e.s) /\ e.res.s # Strip(e.s) THEN V("Any.OrdinaryCsiStripped", FALSE)
  ELSE IF ~Consistent(e.res) THEN V("Any.LenText", FALSE)
  ELSE V("ok", e.res.s = ImplAnyText(e.s))

(* ---------------------------------------------------------------- C10 *)
JudgeWidth(e) ==
  IF e.k # "ok" THEN V("Width.Raised", FALSE)
  ELSE IF e.n # AbsWidth(Cells(e.f)) THEN V("Width.Columns", FALSE) ELSE V("ok", TRUE)
JudgeWidthAt(e) ==
  IF e.k # "ok" THEN V("WidthAt.Raised", FALSE)
  ELSE IF e.n # AbsWidthAtOffset(Cells(e.f), e.off) THEN V("WidthAt.Columns", FALSE) ELSE V("ok", TRUE)
JudgeWslice(e) ==
  LET cs == Cells(e.f)
  IN IF e.res.k # "ok" THEN V("Wslice.Raised", FALSE)
     ELSE LET rc == Cells(e.res.v)
          IN IF Cols(rc) # AbsWsliceCols(cs, e.a, e.b) THEN V("Wslice.Columns", FALSE)
             ELSE IF ~IsSubseq(ZeroCells(rc), ZeroCells(cs)) THEN V("Wslice.ZeroWidthInvented", FALSE)
             ELSE IF LET strip(zs) == [q \in 1..Len(zs) |-> <<zs[q][1], Disp(zs[q][2])>>]
                     IN ~IsSubseq(strip(ZeroMust(e.f, e.a, e.b)), ZeroCells(rc)) \/ ~IsSubseq(ZeroCells(rc), strip(ZeroMay(e.f, e.a, e.b)))
                  THEN V("Wslice.ZeroWidthOfOtherColumns", FALSE)
             ELSE IF ~Consistent(e.res) THEN V("Wslice.LenText", FALSE)
             ELSE V("ok", e.res.v = ImplWslice(e.f, e.a, e.b))

(* ---------------------------------------------------------------- C11 *)
JudgeWsplit(e) ==
  IF e.res.k # "ok" THEN V("Wsplit.Raised", FALSE)
  ELSE IF e.res.fr # 1 THEN V("Wsplit.PieceRendersItsRuns", FALSE)
  ELSE LET lines == [j \in 1..Len(e.res.vs) |-> Cells(e.res.vs[j])]
           c == WrapVerdict(lines, Cells(e.f), e.cols)
       IN IF c # "ok" THEN V("Wsplit." \o c, FALSE) ELSE V("ok", e.res.vs = ImplWsplit(e.f, e.cols))

\* one very long run of one character (n times a character cw columns wide) wrapped at e.cols: judged on scalar facts -
\* the lengths of the lines, and the harness's observation that every line consists of that character under the run's
\* attributes only (e.same) - instead of on tens of thousands of cells: no character lost or added, no line too wide,
\* no line that could have taken one more character
RECURSIVE SumUpTo(_, _)
SumUpTo(xs, k) == IF k = 0 THEN 0 ELSE xs[k] + SumUpTo(xs, k - 1)
SumLens(xs) == SumUpTo(xs, Len(xs))
JudgeWsplitLong(e) ==
  IF e.k # "ok" THEN V("Wsplit.Raised", FALSE)
  ELSE IF e.same # 1 THEN V("Wsplit.AllCharacters", FALSE)
  ELSE IF SumLens(e.lens) # e.n THEN V("Wsplit.AllCharacters", FALSE)
  ELSE IF \E j \in 1..Len(e.lens) : e.lens[j] * e.cw > e.cols THEN V("Wsplit.LineTooWide", FALSE)
  ELSE IF \E j \in 1..Len(e.lens) - 1 : (e.lens[j] + 1) * e.cw <= e.cols THEN V("Wsplit.LineNotFilled", FALSE)
  ELSE V("ok", TRUE)

(* ---------------------------------------------------------------- C16 *)
JudgeLinesplit(e) ==
  IF e.res.k # "ok" THEN V("Linesplit.Raised", FALSE)
  ELSE IF e.res.fr # 1 THEN V("Linesplit.PieceRendersItsRuns", FALSE)
  ELSE LET c == LinesplitVerdict([j \in 1..Len(e.res.vs) |-> Cells(e.res.vs[j])], Cells(e.f.v), e.cols)
       IN IF c # "ok" THEN V("Linesplit." \o c, FALSE) ELSE V("ok", e.res.vs = ImplLinesplit(e.f.v, e.cols))

\* a text longer than the usual buffer sizes: judged on scalar facts - e.ws the lengths of its words in order, e.lens the
\* lengths of the lines, e.same the harness's observation that the lines hold the words' characters in order with single
\* joining spaces under the one formatting - against the greedy reference computed on lengths (Wrap.AbsLinesplit, on
\* lengths instead of cells: a word goes on the current line if it fits behind a space, otherwise starts a new one, cut
\* into full-length pieces when it is longer than a line)
PieceLens(w, n) == [p \in 1..((w + n - 1) \div n) |-> IF p * n <= w THEN n ELSE w - (p - 1) * n]
RECURSIVE GreedyLens(_, _, _, _)
GreedyLens(ws, k, n, acc) ==
  IF k > Len(ws) THEN acc
  ELSE IF acc # <<>> /\ acc[Len(acc)] + 1 + ws[k] <= n THEN GreedyLens(ws, k + 1, n, [acc EXCEPT ![Len(acc)] = @ + 1 + ws[k]])
  ELSE GreedyLens(ws, k + 1, n, acc \o PieceLens(ws[k], n))
JudgeLinesplitLong(e) ==
  IF e.k # "ok" THEN V("Linesplit.Raised", FALSE)
  ELSE IF e.same # 1 THEN V("Linesplit.WordsInOrderSingleSpaces", FALSE)
  ELSE IF \E j \in 1..Len(e.lens) : e.lens[j] > e.cols THEN V("Linesplit.LineTooLong", FALSE)
  ELSE IF e.lens # GreedyLens(e.ws, 1, e.cols, <<>>) THEN V("Linesplit.GreedyLines", FALSE)
  ELSE V("ok", TRUE)

(* ---------------------------------------------------------------- C15 *)
\* empty runs' attributes count as attributes the original had (weakest reading)
EmptyRunAtts(f) == LET es == SelectSeq(f, LAMBDA r : r[1] = <<>>) IN [k \in 1..Len(es) |-> Disp(es[k][2])]
PiecesVerdict(pfx, res, f, ranges, ref, hasImpl, impl) ==
  IF res.k # "ok" THEN V(pfx \o ".Raised", FALSE)
  ELSE IF res.fr # 1 THEN V(pfx \o ".PieceRendersItsRuns", FALSE)
  ELSE IF [j \in 1..Len(res.vs) |-> Text(res.vs[j])] # ref THEN V(pfx \o ".TextAgreesWithStr", FALSE)
  ELSE IF Len(ranges) # Len(ref) \/ [j \in 1..Len(ranges) |-> TextOfCells(Ranges(Cells(f), ranges)[j])] # ref THEN V(pfx \o ".MachinerySpecVsPython", FALSE)
  ELSE IF [j \in 1..Len(res.vs) |-> Cells(res.vs[j])] # Ranges(Cells(f), ranges) THEN V(pfx \o ".PieceFormatting", FALSE)
  ELSE V("ok", IF hasImpl THEN res.vs = impl ELSE TRUE)
JudgeSplit(e) ==
  PiecesVerdict("Split", e.res, e.f, IF e.regex = 1 THEN e.ranges ELSE SplitRanges(Text(e.f), e.sep), e.ref,
                e.regex # 1, IF e.regex = 1 THEN <<>> ELSE ImplSplit(e.f, e.sep))
JudgeSplitlines(e) == PiecesVerdict("Splitlines", e.res, e.f, SplitlinesRanges(Text(e.f), e.keepends), e.ref, TRUE, ImplSplitlines(e.f, e.keepends))

JudgeJust(e) ==
  LET cs == Cells(e.f)
  IN IF e.res.k # "ok" THEN V("Just.Raised", FALSE)
     ELSE IF Text(e.res.v) # e.ref THEN V("Just.TextAgreesWithStr", FALSE)
     ELSE IF ~NoInvented(Cells(e.res.v), cs, EmptyRunAtts(e.f)) THEN V("Just.InventedFormatting", FALSE)
     ELSE IF ~Consistent(e.res) THEN V("Just.LenText", FALSE)
     ELSE V("ok", e.fill # 0 \/ e.res.v = (IF e.side = "ljust" THEN ImplLjust(e.f, e.w) ELSE ImplRjust(e.f, e.w)))

\* delegated str methods: text results carry exactly the formatting shared by all characters;
\* list results likewise per element; other answers equal str's answer (both logged as repr text)
JudgeDelegated(e) ==
  LET cs == Cells(e.f)
      sh == SharedDisp(cs)
      okcells(rc) == /\ NoInvented(rc, cs, EmptyRunAtts(e.f))
                     /\ (cs # <<>> => \A k \in 1..Len(rc) : \A i \in AttIdx : sh[i] # 0 => rc[k][2][i] = sh[i])
  IN IF e.kind = "exc" THEN (IF e.refkind = "exc" THEN V("ok", TRUE) ELSE V("Delegated.Raised", FALSE))
     ELSE IF e.refkind = "exc" THEN V("Delegated.ShouldRaise", FALSE)
     ELSE IF e.kind # e.refkind THEN V("Delegated.AnswerKind", FALSE)
     ELSE IF e.kind = "other" THEN (IF e.got = e.ref THEN V("ok", TRUE) ELSE V("Delegated.AnswerAgreesWithStr", FALSE))
     ELSE IF [j \in 1..Len(e.vs) |-> Text(e.vs[j])] # e.reftexts THEN V("Delegated.TextAgreesWithStr", FALSE)
     ELSE IF \E j \in 1..Len(e.vs) : ~okcells(Cells(e.vs[j])) THEN V("Delegated.SharedFormatting", FALSE)
     ELSE V("ok", TRUE)

Judge(e) ==
  CASE e.op = "str" -> JudgeStr(e)
    [] e.op = "slice" -> JudgeSlice(e)
    [] e.op = "index" -> JudgeIndex(e)
    [] e.op = "add" -> JudgeAdd(e)
    [] e.op = "mul" -> JudgeMul(e)
    [] e.op = "join" -> JudgeJoin(e)
    [] e.op = "splice" -> JudgeSplice(e)
    [] e.op = "append" -> JudgeAppend(e)
    [] e.op = "apply" -> JudgeApply(e)
    [] e.op = "remove" -> JudgeRemove(e)
    [] e.op = "newstr" -> JudgeNewStr(e)
    [] e.op = "shared" -> JudgeShared(e)
    [] e.op = "roundtrip" -> JudgeRoundTrip(e)
    [] e.op = "parse" -> JudgeParse(e)
    [] e.op = "any" -> JudgeAny(e)
    [] e.op = "width" -> JudgeWidth(e)
    [] e.op = "width_at" -> JudgeWidthAt(e)
    [] e.op = "wslice" -> JudgeWslice(e)
    [] e.op = "wsplit" -> JudgeWsplit(e)
    [] e.op = "wsplitlong" -> JudgeWsplitLong(e)
    [] e.op = "linesplit" -> JudgeLinesplit(e)
    [] e.op = "linesplitlong" -> JudgeLinesplitLong(e)
    [] e.op = "split" -> JudgeSplit(e)
    [] e.op = "splitlines" -> JudgeSplitlines(e)
    [] e.op = "just" -> JudgeJust(e)
    [] e.op = "delegated" -> JudgeDelegated(e)
    [] e.op = "eq" -> JudgeEq(e)
    [] e.op = "repr" -> JudgeRepr(e)
    [] OTHER -> <<"fail", "UnknownOp", "drift">>
=============================================================================

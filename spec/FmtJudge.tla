------------------------------ MODULE FmtJudge ------------------------------
(* Dispatch of one recorded event to the L1 clauses (verdict) and the L2 model (conformance). *)
EXTENDS ColorStr

V(clause, exact) == <<IF clause = "ok" THEN "ok" ELSE "fail", IF clause = "ok" THEN "" ELSE clause,
                      IF exact THEN "exact" ELSE "drift">>

(* C01: str(f) asked twice (memo) and the concatenation of the runs' own color_str *)
JudgeStr(e) ==
  LET c == C01Verdict(e.f, e.toks)
      c2 == IF c # "ok" THEN c ELSE C01Verdict(e.f, e.toks2)
  IN V(c2, e.toks = ImplStr(e.f) /\ e.toks2 = e.toks)

Judge(e) ==
  CASE e.op = "str" -> JudgeStr(e)
    [] OTHER -> <<"fail", "UnknownOp", "drift">>
=============================================================================

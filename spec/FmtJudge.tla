------------------------------ MODULE FmtJudge ------------------------------
(***************************************************************************)
(* Dispatch of one recorded event of the FmtStr algebra to the L1 clauses *)
(* (verdict) and the L2 model (conformance).                              *)
(* A result record is [k |-> "ok" | "exc", v |-> runs, t |-> exception    *)
(* class, n |-> len(result), s |-> result.s]                              *)
(***************************************************************************)
EXTENDS ColorStr, FmtImpl

V(clause, exact) == <<IF clause = "ok" THEN "ok" ELSE "fail", IF clause = "ok" THEN "" ELSE clause,
                      IF exact THEN "exact" ELSE "drift">>

Consistent(res) == Text(res.v) = res.s /\ res.n = Len(res.s)

\* a value-returning operation: must not raise, must show `cells`, len()/.s must agree with the runs
JudgeValue(pfx, res, cells, impl) ==
  IF res.k # "ok" THEN V(pfx \o ".Raised", FALSE)
  ELSE IF Cells(res.v) # cells THEN V(pfx \o ".Cells", FALSE)
  ELSE IF ~Consistent(res) THEN V(pfx \o ".LenText", FALSE)
  ELSE V("ok", res.v = impl)

(* ---------------------------------------------------------------- C01 *)
JudgeStr(e) ==
  LET c == C01Verdict(e.f, e.toks)
      c2 == IF c # "ok" THEN c ELSE C01Verdict(e.f, e.toks2)
  IN V(c2, e.toks = ImplStr(e.f) /\ e.toks2 = e.toks)

(* ---------------------------------------------------------------- C06 *)
JudgeSlice(e) ==
  JudgeValue("Slice", e.res, AbsSlice(Cells(e.f), e.a, e.an, e.b, e.bn), ImplSlice(e.f, e.a, e.an, e.b, e.bn))

JudgeIndex(e) ==
  IF AbsIndexRaises(Cells(e.f), e.i)
  THEN IF e.res.k = "exc" THEN V("ok", e.res.t = "IndexError") ELSE V("Index.MustRaise", FALSE)
  ELSE JudgeValue("Index", e.res, AbsIndex(Cells(e.f), e.i), ImplIndex(e.f, e.i))

JudgeAdd(e) == JudgeValue("Add", e.res, AbsAdd(Cells(e.x.v), Cells(e.y.v)), ImplAdd(e.x.v, e.y.v))
JudgeMul(e) == JudgeValue("Mul", e.res, AbsMul(Cells(e.f), e.n), ImplMul(e.f, e.n))
JudgeJoin(e) ==
  LET items == [k \in 1..Len(e.items) |-> e.items[k].v]
  IN JudgeValue("Join", e.res, AbsJoin(Cells(e.sep), [k \in 1..Len(items) |-> Cells(items[k])]),
                ImplJoin(e.sep, items))

(* ---------------------------------------------------------------- C09 *)
JudgeSplice(e) ==
  LET j == JudgeValue("Splice", e.res, AbsSplice(Cells(e.f), Cells(e.new.v), e.s, e.e, e.en),
                      ImplSplice(e.f, e.new.v, e.s, e.e, e.en))
  IN IF j[1] = "ok" /\ e.f2 # e.f THEN V("Splice.OperandChanged", FALSE) ELSE j
JudgeAppend(e) ==
  LET j == JudgeValue("Append", e.res, AbsAppend(Cells(e.f), Cells(e.new.v)), ImplAppend(e.f, e.new.v))
  IN IF j[1] = "ok" /\ e.f2 # e.f THEN V("Append.OperandChanged", FALSE) ELSE j

Judge(e) ==
  CASE e.op = "str" -> JudgeStr(e)
    [] e.op = "slice" -> JudgeSlice(e)
    [] e.op = "index" -> JudgeIndex(e)
    [] e.op = "add" -> JudgeAdd(e)
    [] e.op = "mul" -> JudgeMul(e)
    [] e.op = "join" -> JudgeJoin(e)
    [] e.op = "splice" -> JudgeSplice(e)
    [] e.op = "append" -> JudgeAppend(e)
    [] OTHER -> <<"fail", "UnknownOp", "drift">>
=============================================================================

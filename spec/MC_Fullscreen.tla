---------------------------- MODULE MC_Fullscreen ----------------------------
(***************************************************************************)
(* Design-level model of C02: a terminal (Term.tla) driven by the         *)
(* implementation-shaped FullscreenWindow (FullscreenWin.tla) through     *)
(* every sequence of Render / Resize over a small terminal.  TLC checks   *)
(* that after every render the screen equals the array (clipped), the     *)
(* cursor is where asked and nothing scrolled; CacheTruth is the          *)
(* inductive reason: every cached row is what the screen shows.           *)
(* `hist` records the behaviour; it is hidden from the state by VIEW in   *)
(* exhaustive mode and printed in simulation mode (behaviour generator).  *)
(***************************************************************************)
EXTENDS FullscreenWin, TLC, Json
CONSTANTS Sizes, MaxArr, HistDepth, Emit, FullLines
VARIABLES term, cache, lastHW, hide, entered, lastOk, hist

SizesQ == {<<2, 2>>, <<1, 3>>}
SizesA == {<<2, 2>>, <<1, 2>>, <<2, 3>>, <<3, 2>>}
SizesB == {<<3, 3>>, <<2, 3>>, <<3, 4>>}
SizesC == {<<4, 6>>, <<3, 5>>, <<5, 4>>}
vars == <<term, cache, lastHW, hide, entered, lastOk, hist>>
view == <<term, cache, lastHW, hide, entered, lastOk>>

Plain == <<0, 0, 0, 0, 0, 0, 0, 0>>
Red == <<2, 0, 0, 0, 0, 0, 0, 0>>
\* representative lines for width w: empty, short, same text other format, full width, mixed, over-wide, two runs
LinesFor(w) == { <<>>, << <<<<97>>, Plain>> >>, << <<[k \in 1..w |-> 97], Red>> >>,
                 << <<[k \in 1..w + 1 |-> 98], Plain>> >> }
               \cup (IF FullLines THEN { << <<<<97>>, Red>> >>, << <<[k \in 1..w |-> 97], Plain>> >>,
                                         << <<<<97>>, Plain>>, <<[k \in 1..w - 1 |-> 97], Red>> >> } ELSE {})
RECURSIVE Arrays(_, _)
Arrays(L, n) == IF n = 0 THEN {<<>>} ELSE LET A == Arrays(L, n - 1) IN A \cup {Append(a, x) : a \in {b \in A : Len(b) = n - 1}, x \in L}

Init == /\ \E s \in Sizes : term = NewTerm(s[1], s[2])
        /\ cache = NoCache /\ lastHW = <<0, 0>> /\ hide \in BOOLEAN /\ entered = FALSE /\ lastOk = "ok"
        /\ hist = << [k |-> "init", h |-> term.h, w |-> term.w, hide |-> IF hide THEN 1 ELSE 0] >>

Enter == /\ ~entered /\ entered' = TRUE
         /\ term' = ApplyAll(term, EnterFullscreenToks \o (IF hide THEN <<HideTok>> ELSE <<>>))
         /\ hist' = Append(hist, [k |-> "enter"])
         /\ UNCHANGED <<cache, lastHW, hide, lastOk>>

Render(arr, cp) ==
  /\ entered
  /\ LET sizeChanged == lastHW # <<term.h, term.w>>
         c0 == IF sizeChanged THEN NoCache ELSE cache
         out == ImplFsRender(c0, arr, cp, term.h, term.w, hide)
         after == ApplyAll(term, out[1])
     IN /\ term' = after
        /\ cache' = out[2]
        /\ lastOk' = FsRenderVerdict(term, after, arr, cp)
  /\ lastHW' = <<term.h, term.w>>
  /\ hist' = Append(hist, [k |-> "render", arr |-> arr, cp |-> cp])
  /\ UNCHANGED <<hide, entered>>

DoResize(s, r, c) ==
  /\ entered /\ s # <<term.h, term.w>> /\ lastHW = <<term.h, term.w>>   \* to a size different from the one last rendered at
  /\ term' = Resize(term, s[1], s[2], r, c)
  /\ hist' = Append(hist, [k |-> "resize", h |-> s[1], w |-> s[2], r |-> r, c |-> c])
  /\ UNCHANGED <<cache, lastHW, hide, entered, lastOk>>

Next ==
  /\ Len(hist) < HistDepth
  /\ \/ Enter
     \/ \E arr \in Arrays(LinesFor(term.w), MaxArr), cp \in {<<0, 0>>, <<term.h - 1, term.w - 1>>} : Render(arr, cp)
     \/ \E s \in Sizes : \E r \in {0, s[1] - 1}, c \in {0, s[2] - 1} : DoResize(s, r, c)
Spec == Init /\ [][Next]_vars

\* behaviour generator (simulation mode only): one random successor per step instead of all of them
GenNext ==
  /\ Len(hist) < HistDepth
  /\ IF ~entered THEN Enter
     ELSE IF lastHW = <<term.h, term.w>> /\ RandomElement(1..4) = 1
     THEN \E s \in {RandomElement(Sizes \ {<<term.h, term.w>>})} :
            \E r \in {RandomElement(0..s[1] - 1)}, c \in {RandomElement(0..s[2] - 1)} : DoResize(s, r, c)
     ELSE \E n \in {RandomElement(0..MaxArr)} :
            \E arr \in {[j \in 1..n |-> RandomElement(LinesFor(term.w))]} :
              \E r \in {RandomElement(0..term.h - 1)}, c \in {RandomElement(0..term.w - 1)} : Render(arr, <<r, c>>)
GenSpec == Init /\ [][GenNext]_vars

RenderShowsArray == lastOk = "ok"
\* every cached row is what the screen shows there (only meaningful while the size is the one rendered at)
CacheTruth ==
  lastHW = <<term.h, term.w>> =>
    \A r \in 1..Min2(Len(cache), term.h) :
       /\ cache[r][1] = "line" => term.scr[r] = ExpectedScr(<<RowCells(cache[r][2])>>, 1, term.w)[1]
       /\ cache[r][1] = "blank" => term.scr[r] = BlankRow(term.w, DefaultGr)
EmitBehaviour == (Emit /\ Len(hist) = HistDepth) => PrintT(<<"BEH", ToJson(hist)>>)
=============================================================================

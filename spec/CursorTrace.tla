----------------------------- MODULE CursorTrace -----------------------------
(***************************************************************************)
(* L3 - trace validation for C07: recorded histories of a real            *)
(* CursorAwareWindow: setup (tokens of the pre-existing output), enter    *)
(* (tokens written, the cursor report the harness answered with),         *)
(* render (array, cursor_pos, tokens, returned value, top_usable_row      *)
(* afterwards), exit (tokens).  Term.tla consumes the recorded tokens;    *)
(* every cursor report the harness sent is cross-checked against the      *)
(* reference terminal (a mismatch is a machinery failure, not a verdict). *)
(***************************************************************************)
EXTENDS CursorWin, Json, IOUtils, TLC
VARIABLES i, l, term, cache, top, lastHW, v, conf

Traces == ndJsonDeserialize(IOEnv.TRACE_FILE)
vars == <<i, l, term, cache, top, lastHW, v, conf>>

Init == /\ i \in 1..Len(Traces)
        /\ l = 1 /\ term = NewTerm(Traces[i].h, Traces[i].w) /\ cache = CaNoCache /\ top = 0 /\ lastHW = <<0, 0>>
        /\ v = <<"ok", "", 0>> /\ conf = "exact"

Rows(arr) == [j \in 1..Len(arr) |-> arr[j].v]
Fail(clause) == IF v[1] = "ok" /\ clause # "ok" THEN <<"fail", clause, l>> ELSE v
Drift(exact) == IF exact THEN conf ELSE "drift"
BadCheck(t) == IF t.bad # 0 THEN "MachineryUnknownControlFunction" ELSE "ok"

Next ==
  /\ l <= Len(Traces[i].ev)
  /\ l' = l + 1 /\ i' = i
  /\ LET e == Traces[i].ev[l]
         hide == Traces[i].hide = 1
     IN CASE e.k = "setup" ->
               /\ term' = ApplyAll(term, e.toks)
               /\ v' = Fail(BadCheck(term'))
               /\ UNCHANGED <<cache, top, lastHW, conf>>
          [] e.k = "enter" ->
               /\ term' = ApplyAll(term, e.toks)
               /\ top' = term.r
               /\ v' = Fail(IF term'.bad # 0 THEN "MachineryUnknownControlFunction"
                            ELSE IF term'.replies # <<e.reply>> THEN "MachineryCursorReportMismatch" ELSE "ok")
               /\ conf' = Drift(e.toks = << <<"c", "", <<6>>, "", "n">> >> \o (IF hide THEN <<HideTok>> ELSE <<>>) /\ e.top = term.r)
               /\ UNCHANGED <<cache, lastHW>>
          [] e.k = "render" ->
               LET arr == Rows(e.arr)
                   after == ApplyAll(term, e.toks)
                   c0 == IF lastHW # <<term.h, term.w>> THEN CaNoCache ELSE cache
                   out == ImplCaRender(c0, top, arr, e.cp, term.h, term.w, hide)
               IN /\ term' = after
                  /\ v' = Fail(IF e.exc # "" THEN "RenderRaised" ELSE CaRenderVerdict(term, after, top, arr, e.cp, e.ret))
                  /\ conf' = Drift(out[1] = e.toks /\ out[3] = e.top /\ out[4] = e.ret)
                  /\ cache' = out[2]
                  /\ top' = CaNewTop(Len(arr), term.h, top)
                  /\ lastHW' = <<term.h, term.w>>
          [] e.k = "exit" ->
               LET after == ApplyAll(term, e.toks)
                   kept == SubSeq(AllLines(term), 1, Len(term.sb) + top)
               IN /\ term' = after
                  /\ v' = Fail(IF after.bad # 0 THEN "MachineryUnknownControlFunction"
                               ELSE IF ~IsPrefixOf(kept, AllLines(after)) THEN "HistoryIntactOnExit"
                               ELSE IF ~after.vis THEN "CursorVisibleAfterExit"
                               ELSE "ok")
                  /\ UNCHANGED <<cache, top, lastHW, conf>>
Spec == Init /\ [][Next]_vars

Report == (l <= Len(Traces[i].ev) \/ (v[1] = "ok" /\ conf = "exact")) \/ PrintT(<<"V", i>> \o v \o <<conf>>)
=============================================================================

------------------------------ MODULE KeyTrace ------------------------------
(***************************************************************************)
(* L3 - trace validation for C03 and C20.  Items:                          *)
(*  node   : a buffer on the decoder's decision tree, an encoding and, per *)
(*           naming mode, the outcome codes of real get_key for all 256    *)
(*           next bytes with full = FALSE and full = TRUE                  *)
(*  stream : a byte string pushed through real Input.find_key semantics    *)
(*           (unget_bytes + requests) in the three naming modes: cut       *)
(*           positions, outcome codes, exceptions                          *)
(*  scalar : one Unicode scalar value, its UTF-8 bytes, what came back     *)
(*  keymap : a configuration key name and the names it maps to             *)
(***************************************************************************)
EXTENDS KeyDecoder
VARIABLES i, v

Events == ndJsonDeserialize(IOEnv.TRACE_FILE)
V(clause, exact) == <<IF clause = "ok" THEN "ok" ELSE "fail", IF clause = "ok" THEN "" ELSE clause, IF exact THEN "exact" ELSE "drift">>
Class(code) == IF code = 0 THEN 0 ELSE IF code = 1 THEN 1 ELSE 2

Modes == <<"curtsies", "curses", "bytes">>
VecOf(e, mode) == IF mode = "curtsies" THEN e.vc ELSE IF mode = "curses" THEN e.vs ELSE e.vb

NodeVerdict(e) ==
  LET seqOf(b) == Append(e.buf, b)
      bad(mode, f, b) == ~AllowedOk(VecOf(e, mode)[f + 1][b + 1], seqOf(b), e.enc, mode, f = 1)
  IN IF \E m \in 1..3, f \in 0..1, b \in 0..255 : bad(Modes[m], f, b)
     THEN LET w == CHOOSE w \in (1..3) \X (0..1) \X (0..255) : bad(Modes[w[1]], w[2], w[3])
              s == seqOf(w[3])
              got == VecOf(e, Modes[w[1]])[w[2] + 1][w[3] + 1]
          IN IF got = 1 THEN "NeverFailsOnValidInput"
             ELSE IF got = 0 THEN "AsksForMoreOnlyWhileItCanGrow"
             ELSE IF s \in TableKeys THEN "WholeSequenceOneKeyUnderTableName"
             ELSE "CharacterAsItself"
     ELSE "ok"
\* C20: the three naming modes take the same more/key/fail decisions; "bytes" naming returns the bytes
Node20Verdict(e) ==
  IF \E f \in 0..1, b \in 0..255 : Class(e.vc[f + 1][b + 1]) # Class(e.vs[f + 1][b + 1]) \/ Class(e.vc[f + 1][b + 1]) # Class(e.vb[f + 1][b + 1])
  THEN "ModesCutAtSamePlaces"
  ELSE IF \E f \in 0..1, b \in 0..255 : Class(e.vb[f + 1][b + 1]) = 2 /\ e.vb[f + 1][b + 1] # 4 THEN "BytesNamingReturnsTheBytes"
  \* a keypress that curses naming reports under a name (a table name, or any other string that is not the decoded text:
  \* code 3 / >= 10) is not reported as bare text (code 2) by curtsies naming - also for sequences outside both tables
  ELSE IF \E f \in 0..1, b \in 0..255 : (e.vs[f + 1][b + 1] = 3 \/ e.vs[f + 1][b + 1] >= 10) /\ e.vc[f + 1][b + 1] = 2 THEN "CursesNamedSequenceHasCurtsiesName"
  ELSE "ok"
NodeExact(e) == \A m \in 1..3, f \in 0..1, b \in 0..255 :
                   VecOf(e, Modes[m])[f + 1][b + 1] = ImplDecide(Append(e.buf, b), e.enc, Modes[m], f = 1)

(* find_key on a whole buffered stream: pop bytes until a key; full = nothing left after this byte *)
RECURSIVE ModelCuts(_, _, _, _, _)
ModelCuts(s, start, k, enc, mode) ==   \* <<cuts..., codes..., status>> as <<seq of <<cut, code>>, failed>>
  IF start > Len(s) THEN << <<>>, FALSE >>
  ELSE IF k > Len(s) THEN << <<>>, TRUE >>                     \* bytes left over without a key: ValueError
  ELSE LET d == ImplDecide(SubSeq(s, start, k), enc, mode, k = Len(s))
       IN IF d = 0 THEN ModelCuts(s, start, k + 1, enc, mode)
          ELSE IF d = 1 THEN << <<>>, TRUE >>
          ELSE LET r == ModelCuts(s, k + 1, k + 1, enc, mode) IN << << <<k, d>> >> \o r[1], r[2] >>

\* L1 on a stream: lossless cuts; for streams made of two valid items K1 K2 the boundary rules
StreamVerdict(e) ==
  LET okCuts(c, n) == /\ \A j \in 1..Len(c) : c[j] >= 1 /\ c[j] <= n
                      /\ \A j \in 1..Len(c) - 1 : c[j] < c[j + 1]
      n == Len(e.bytes)
      keysB == e.keysb            \* bytes-mode keys as byte sequences
      \* valid input: both items recognised; a utf-8 Meta byte is recognised only when it ends the read
      valid == e.valid = 1 /\ ~(MetaCollision(e.k1, e.enc) /\ e.k2 # <<>>)
  IN IF ~okCuts(e.cutsc, n) \/ ~okCuts(e.cutss, n) \/ ~okCuts(e.cutsb, n) THEN "LosslessCuts"
     ELSE IF FlattenSeq(keysB) # SubSeq(e.bytes, 1, IF e.cutsb = <<>> THEN 0 ELSE e.cutsb[Len(e.cutsb)]) THEN "LosslessBytes"
     ELSE IF valid /\ e.excc # "" THEN "NeverFailsOnValidInput"
     ELSE IF valid /\ (e.cutsc = <<>> \/ e.cutsc[Len(e.cutsc)] # n) THEN "EveryByteReturned"
     ELSE IF valid /\ e.k1 \notin KeyPrefixes /\ ~MetaCollision(e.k1, e.enc)
             /\ (e.cutsc[1] # Len(e.k1) \/ e.codesc[1] \notin Allowed(e.k1, e.enc, "curtsies", Len(e.k1) = n)) THEN "FirstKeyNotMergedNorBroken"
     ELSE IF valid /\ e.k1 \notin KeyPrefixes /\ ~MetaCollision(e.k1, e.enc) /\ e.k2 # <<>> /\ ~MetaCollision(e.k2, e.enc)
             /\ (Len(e.cutsc) # 2 \/ e.codesc[2] \notin Allowed(e.k2, e.enc, "curtsies", TRUE)) THEN "SecondKeyWholeUnderItsName"
     ELSE "ok"
\* end to end over a pipe: e.items are recognised keypresses (letters, table sequences, characters) none of which is
\* a proper prefix of a longer recognised sequence; all of them had arrived before the first request; bytes naming
\* (or: handed over one keypress per piece with a request after each, so that a key which is a proper prefix of longer
\* sequences ends what has arrived and is a keypress)
PipeVerdict(e) ==
  IF e.exc # "" THEN "NeverFailsOnValidInput"
  ELSE IF FlattenSeq(e.keys) # FlattenSeq(e.items) THEN "LosslessBytes"
  ELSE IF e.keys # e.items THEN "WholeSequenceOneKeyUnderTableName"
  ELSE "ok"

Stream20Verdict(e) ==
  IF e.cutsc # e.cutss \/ e.cutsc # e.cutsb \/ (e.excc = "") # (e.excs = "") \/ (e.excc = "") # (e.excb = "") THEN "ModesCutAtSamePlaces"
  ELSE IF e.keysb # [j \in 1..Len(e.cutsb) |-> SubSeq(e.bytes, IF j = 1 THEN 1 ELSE e.cutsb[j - 1] + 1, e.cutsb[j])] THEN "BytesNamingReturnsTheBytes"
  ELSE "ok"
StreamExact(e) ==
  LET m(mode) == ModelCuts(e.bytes, 1, 1, e.enc, mode)
      cuts(r) == [j \in 1..Len(r[1]) |-> r[1][j][1]]
  IN cuts(m("curtsies")) = e.cutsc /\ cuts(m("curses")) = e.cutss /\ cuts(m("bytes")) = e.cutsb
     /\ [j \in 1..Len(m("curtsies")[1]) |-> m("curtsies")[1][j][2]] = e.codesc
     /\ (m("curtsies")[2] <=> e.excc # "")

ScalarVerdict(e) ==
  IF ~IsChar(e.bytes) \/ CodePoint(e.bytes) # e.cp THEN "MachineryUtf8Reference"
  ELSE IF e.k # "ok" THEN "NeverFailsOnValidInput"
  ELSE IF e.more # Len(e.bytes) - 1 THEN "AsksForMoreOnlyWhileItCanGrow"
  ELSE IF e.cp >= 128 /\ e.text # <<e.cp>> THEN "CharacterAsItself"
  ELSE IF e.cp < 128 /\ e.bytes \notin TableKeys /\ e.text # <<e.cp>> THEN "CharacterAsItself"
  ELSE "ok"

\* names the decoder can actually produce in "curtsies" naming
Reachable == {Curtsies[k][2] : k \in 1..Len(Curtsies)}
KeymapVerdict(e) ==
  IF e.valid = 1 THEN
       (IF e.k # "ok" THEN "ValidConfigNameRaises"
        ELSE IF e.key = "" THEN (IF e.res = <<>> THEN "ok" ELSE "UnboundMapsToNothing")
        ELSE IF e.res = <<>> THEN "ConfigNameMapsToNothing"
        ELSE IF \E j \in 1..Len(e.res) : e.res[j] \notin Reachable THEN "ConfigNameNeverProduced"
        ELSE "ok")
  ELSE "ok"

TableVerdict(e) ==
  IF ~(CursesKeys \subseteq CurtsiesKeys) THEN "CursesNamedSequenceHasCurtsiesName" ELSE "ok"

\* the tables a fresh interpreter builds under another terminal type (e.term): sequences as byte lists
TermTablesVerdict(e) ==
  IF e.k # "ok" THEN "ImportFailsUnderThisTerminalType"
  ELSE IF \E j \in 1..Len(e.curses) : \A m \in 1..Len(e.curtsies) : e.curtsies[m] # e.curses[j] THEN "CursesNamedSequenceHasCurtsiesName"
  ELSE "ok"

Judge(e) ==
  CASE e.op = "node" -> V(NodeVerdict(e), NodeExact(e))
    [] e.op = "stream" -> V(StreamVerdict(e), StreamExact(e))
    [] e.op = "node20" -> V(Node20Verdict(e), NodeExact(e))
    [] e.op = "stream20" -> V(Stream20Verdict(e), StreamExact(e))
    [] e.op = "pipe" -> V(PipeVerdict(e), TRUE)
    [] e.op = "scalar" -> V(ScalarVerdict(e), TRUE)
    [] e.op = "keymap" -> V(KeymapVerdict(e), TRUE)
    [] e.op = "tables" -> V(TableVerdict(e), TRUE)
    [] e.op = "termtables" -> V(TermTablesVerdict(e), TRUE)
    [] OTHER -> <<"fail", "UnknownOp", "drift">>

Init == i \in 1..Len(Events) /\ v = <<"todo">>
Next == v = <<"todo">> /\ v' = Judge(Events[i]) /\ UNCHANGED i
Spec == Init /\ [][Next]_<<i, v>>
Report == (v = <<"todo">> \/ v = <<"ok", "", "exact">>) \/ PrintT(<<"V", i>> \o v)
=============================================================================

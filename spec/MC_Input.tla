------------------------------- MODULE MC_Input -------------------------------
(* Constants for model checking / behaviour generation of Input.tla *)
EXTENDS Input
BurstsA == {<<1, 1>>, <<1, 3>>, <<2, 2>>}
BurstsB == {<<1, 1>>, <<1, 3>>, <<3, 2>>, <<12, 1>>}
TimeoutsA == {0, 2, -1}
Unlimited == -1
\* state constraint for exhaustive runs
Bounded == nextId <= 5 /\ Len(delivered) <= 5 /\ tsPipe <= 2 /\ sigPipe <= 2
=============================================================================

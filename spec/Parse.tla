------------------------------- MODULE Parse -------------------------------
(***************************************************************************)
(* C05, L2 - FmtStr.from_str as coded: the escape-code tokenizer yields   *)
(* text pieces and SGR tokens; a running format (one slot per attribute,  *)
(* None = 0) is updated by each SGR value (reset-all clears every slot),  *)
(* and each text piece becomes one run carrying the non-None slots.       *)
(* An SGR sequence none of whose values is known makes the whole parse    *)
(* fall back to "strip all CSI sequences, no formatting".                 *)
(* L1 for the grammar of C05 is the stream terminal of Sgr.tla.           *)
(***************************************************************************)
EXTENDS Sgr

KnownSgr(p) == p \in {0, 1, 2, 3, 4, 5, 7, 39, 49} \cup (30..37) \cup (40..47)

ParseValue(cur, p) ==
  IF p = 0 THEN NoAtts
  ELSE IF p \in 30..37 THEN [cur EXCEPT ![FG] = p - 29]
  ELSE IF p \in 40..47 THEN [cur EXCEPT ![BG] = p - 39]
  ELSE IF p = 39 THEN [cur EXCEPT ![FG] = 0]
  ELSE IF p = 49 THEN [cur EXCEPT ![BG] = 0]
  ELSE IF p = 1 THEN [cur EXCEPT ![BOLD] = 2]
  ELSE IF p = 2 THEN [cur EXCEPT ![DARK] = 2]
  ELSE IF p = 3 THEN [cur EXCEPT ![ITALIC] = 2]
  ELSE IF p = 4 THEN [cur EXCEPT ![UNDERLINE] = 2]
  ELSE IF p = 5 THEN [cur EXCEPT ![BLINK] = 2]
  ELSE IF p = 7 THEN [cur EXCEPT ![INVERT] = 2]
  ELSE cur

\* state <<cur, runs, buf, bad>>
ParseFlush(st) == IF st[3] = <<>> THEN st ELSE <<st[1], Append(st[2], <<st[3], st[1]>>), <<>>, st[4]>>
ParseTok(st, tok) ==
  IF tok[1] = "t" THEN <<st[1], st[2], Append(st[3], tok[2]), st[4]>>
  ELSE IF tok[1] = "m" THEN
       LET f == ParseFlush(st)
           ps == IF tok[2] = <<>> THEN <<0>> ELSE tok[2]
           known == \E j \in 1..Len(ps) : KnownSgr(ps[j])
       IN <<FoldLeft(ParseValue, f[1], ps), f[2], f[3], f[4] \/ ~known>>
  ELSE ParseFlush(st)      \* other control functions are dropped
ImplParse(toks) ==
  LET st == ParseFlush(FoldLeft(ParseTok, <<NoAtts, <<>>, <<>>, FALSE>>, toks))
      txt == SelectSeq(toks, LAMBDA t : t[1] = "t")
  IN IF st[4] THEN << <<[k \in 1..Len(txt) |-> txt[k][2]], NoAtts>> >> ELSE st[2]

\* L1: what the terminal would display for the token stream
AbsParseCells(toks) == StreamRun(toks)[2]
InGrammar(toks) == \A k \in 1..Len(toks) : toks[k][1] = "t" \/ (toks[k][1] = "m" /\ \A j \in 1..Len(toks[k][2]) : KnownSgr(toks[k][2][j]))
=============================================================================

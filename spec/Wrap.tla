-------------------------------- MODULE Wrap --------------------------------
(***************************************************************************)
(* C16, L1 - the reference greedy first-fit word wrap over cell lists.    *)
(* Whitespace is what Python's \s matches on str: the 29 code points of   *)
(* WhiteSpace below (ASCII and Unicode).  A line is a sequence of entries *)
(*   <<"w", cell>>       a character of a word (keeps its cell)            *)
(*   <<"j", gapcells>>   the single space joining two words, standing for *)
(*                       the whitespace stretch `gapcells` it replaces     *)
(***************************************************************************)
EXTENDS Base

WhiteSpace == {9, 10, 11, 12, 13, 28, 29, 30, 31, 32, 133, 160, 5760, 8232, 8233, 8239, 8287, 12288} \cup (8192..8202)
IsSp(c) == c[1] \in WhiteSpace

RECURSIVE PrefixLen(_, _, _)
PrefixLen(cs, i, sp) == IF i <= Len(cs) /\ IsSp(cs[i]) = sp THEN 1 + PrefixLen(cs, i + 1, sp) ELSE 0

\* alternating stretches <<isSpace, cells>>
RECURSIVE StretchesFrom(_, _)
StretchesFrom(cs, i) ==
  IF i > Len(cs) THEN <<>>
  ELSE LET sp == IsSp(cs[i])
           n == PrefixLen(cs, i, sp)
       IN << <<sp, SubSeq(cs, i, i + n - 1)>> >> \o StretchesFrom(cs, i + n)
Stretches(cs) == StretchesFrom(cs, 1)

\* <<word cells, gap cells preceding the word (<<>> for the first)>>
WordsWithGaps(cs) ==
  LET st == Stretches(cs)
      idx == SelectSeq([k \in 1..Len(st) |-> k], LAMBDA k : ~st[k][1])
  IN [j \in 1..Len(idx) |-> << st[idx[j]][2], IF j = 1 THEN <<>> ELSE st[idx[j] - 1][2] >>]

Pieces(word, n) ==
  LET k == (Len(word) + n - 1) \div n
  IN [i \in 1..k |-> [p \in 1..(Min2(i * n, Len(word)) - (i - 1) * n) |-> <<"w", word[(i - 1) * n + p]>>]]

AbsLinesplit(cs, n) ==
  LET wg == WordsWithGaps(cs)
      step(lines, w) ==
        IF lines = <<>> THEN Pieces(w[1], n)
        ELSE LET last == lines[Len(lines)]
             IN IF Len(last) + 1 + Len(w[1]) <= n
                THEN [lines EXCEPT ![Len(lines)] = last \o << <<"j", w[2]>> >> \o [p \in 1..Len(w[1]) |-> <<"w", w[1][p]>>]]
                ELSE lines \o Pieces(w[1], n)
  IN FoldLeft(step, <<>>, wg)

UniformCells(cs) == \A k \in 1..Len(cs) : cs[k][2] = cs[1][2]
JoinOk(cell, gap) ==
  /\ cell[1] = 32
  /\ UniformCells(gap) => cell[2] = gap[1][2]
  /\ \A i \in AttIdx : cell[2][i] # 0 => \E j \in 1..Len(gap) : gap[j][2][i] = cell[2][i]

\* verdict for observed lines (cell lists)
LinesplitVerdict(lines, cs, n) ==
  LET exp == AbsLinesplit(cs, n)
  IN IF exp = <<>> THEN (IF \A j \in 1..Len(lines) : lines[j] = <<>> THEN "ok" ELSE "NoWordsButContent")
     ELSE IF \E j \in 1..Len(lines) : Len(lines[j]) > n THEN "LineTooLong"
     ELSE IF [j \in 1..Len(lines) |-> TextOfCells(lines[j])]
             # [j \in 1..Len(exp) |-> [p \in 1..Len(exp[j]) |-> IF exp[j][p][1] = "w" THEN exp[j][p][2][1] ELSE 32]]
          THEN "WordsOrBreaks"
     ELSE IF \E j \in 1..Len(exp) : \E p \in 1..Len(exp[j]) : exp[j][p][1] = "w" /\ lines[j][p] # exp[j][p][2] THEN "WordFormatting"
     ELSE IF \E j \in 1..Len(exp) : \E p \in 1..Len(exp[j]) : exp[j][p][1] = "j" /\ ~JoinOk(lines[j][p], exp[j][p][2]) THEN "JoinFormatting"
     ELSE "ok"
=============================================================================

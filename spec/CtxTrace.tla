------------------------------ MODULE CtxTrace ------------------------------
(***************************************************************************)
(* L3 / L1 - trace validation for C12.  One item = one scenario run on    *)
(* real ptys: after every step the harness records a snapshot             *)
(*   [tty, nb, sig, wake, fds, mask]  (tty / sig / wake canonicalised to small  *)
(*   ids: equal id <=> identical termios attribute list / same handler    *)
(*   object / same descriptor) and the tokens written to the terminal.    *)
(* The spec keeps a stack of (kind, snapshot before entering, terminal    *)
(* before entering) and checks Restored whenever a context is left,       *)
(* normally or through an exception, and that a request leaves O_NONBLOCK *)
(* as it found it.                                                        *)
(***************************************************************************)
EXTENDS Term, Json, IOUtils, TLC
VARIABLES i, l, term, stack, cur, v

Traces == ndJsonDeserialize(IOEnv.TRACE_FILE)
vars == <<i, l, term, stack, cur, v>>
Init == /\ i \in 1..Len(Traces) /\ l = 1 /\ term = NewTerm(Traces[i].h, Traces[i].w) /\ stack = <<>>
        /\ cur = Traces[i].snap0 /\ v = <<"ok", "", 0>>
Fail(clause) == IF v[1] = "ok" /\ clause # "ok" THEN <<"fail", clause, l>> ELSE v

ExitVerdict(f, snap, before, after) ==
  IF after.bad # 0 THEN "MachineryUnknownControlFunction"
  ELSE IF snap.tty # f.snap.tty THEN "TtyAttributesRestored"
  ELSE IF snap.nb # f.snap.nb THEN "FileStatusFlagsRestored"
  ELSE IF snap.sig # f.snap.sig THEN "SigintHandlerRestored"
  ELSE IF snap.wake # f.snap.wake THEN "WakeupDescriptorRestored"
  ELSE IF snap.mask # f.snap.mask THEN "SignalMaskRestored"
  ELSE IF snap.fds # f.snap.fds THEN "NoDescriptorLeak"
  ELSE IF f.kind \in {"Fullscreen", "CursorAware"} /\ ~after.vis THEN "CursorVisibleAgain"
  ELSE IF f.kind = "Fullscreen" /\ after.alt THEN "AlternateScreenLeft"
  ELSE IF f.kind = "Fullscreen" /\ after.scr # f.term.scr THEN "MainScreenUntouched"
  ELSE "ok"

Next ==
  /\ l <= Len(Traces[i].ev)
  /\ l' = l + 1 /\ i' = i
  /\ LET e == Traces[i].ev[l]
         after == ApplyAll(term, e.toks)
     IN /\ term' = after
        /\ cur' = e.snap
        /\ CASE e.k = "enter" ->
                  /\ stack' = Append(stack, [kind |-> e.kind, snap |-> cur, term |-> term])
                  /\ v' = Fail(IF e.exc # "" THEN "MachineryEnterRaised"
                               ELSE IF e.kind = "CursorAware" /\ after.replies # term.replies \o <<e.reply>> THEN "MachineryCursorReportMismatch"
                               ELSE "ok")
             [] e.k = "op" ->
                  /\ stack' = stack
                  /\ v' = Fail(IF e.name \in {"request", "request_key", "request_paste", "request_big", "trigger", "sched"} /\ e.snap.nb # cur.nb THEN "RequestLeavesNonblocking" ELSE "ok")
             [] e.k = "exit" \/ e.k = "raise" ->
                  /\ stack' = SubSeq(stack, 1, Len(stack) - 1)
                  /\ v' = Fail(IF stack = <<>> THEN "MachineryExitWithoutEnter"
                               ELSE ExitVerdict(stack[Len(stack)], e.snap, term, after))
             [] e.k = "build" \/ e.k = "env" ->       \* an object is only constructed / the application changes the tty itself
                  /\ stack' = stack
                  /\ v' = Fail(IF e.exc # "" THEN "MachineryEnvStepRaised" ELSE "ok")
             [] OTHER -> stack' = stack /\ v' = Fail("MachineryUnknownEvent")
Spec == Init /\ [][Next]_vars
Report == (l <= Len(Traces[i].ev) \/ v[1] = "ok") \/ PrintT(<<"V", i>> \o v \o <<"exact">>)
=============================================================================

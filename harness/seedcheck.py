"""Confirm a seeded change and record it under /verif/seeded/<id>/.

usage: /venv/bin/python harness/seedcheck.py <Cxx> <dir with patch.diff and demo.py> [name]

Steps (all on scratch copies of /repo outside /repo and /verif, removed afterwards):
  1. the patch applies to the current /repo tree; the baseline suite still passes with it
  2. demo.py exits 0 on the clean tree and non-zero with the patch
  3. ./check <Cxx> --tier quick (VERIF_REPO=<scratch>) exits 1 with a VIOLATION line
Writes seeded/<name>/{patch.diff, demo.py, meta.json}."""
import json
import os
import shutil
import subprocess
import sys
import tempfile
import time

VERIF = os.path.dirname(os.path.dirname(os.path.abspath(__file__)))
ENV = dict(os.environ, TERM="xterm-256color", LC_ALL="C.UTF-8", PYTHONDONTWRITEBYTECODE="1")


def sh(cmd, cwd, env=None, timeout=1800):
    p = subprocess.run(cmd, cwd=cwd, env=env or ENV, shell=True, capture_output=True, text=True, timeout=timeout)
    return p.returncode, (p.stdout + p.stderr)


def main():
    pid, src = sys.argv[1], sys.argv[2]
    name = sys.argv[3] if len(sys.argv) > 3 else pid
    needs = sys.argv[4] if len(sys.argv) > 4 else ""
    tmp = tempfile.mkdtemp(prefix="seed_")
    clean, mut = os.path.join(tmp, "clean"), os.path.join(tmp, "mut")
    try:
        for d in (clean, mut):
            shutil.copytree("/repo", d, ignore=shutil.ignore_patterns(".git", "__pycache__"))
            shutil.copy(os.path.join(src, "demo.py"), os.path.join(d, "demo.py"))
        rc, out = sh(f"patch -p1 < {os.path.join(src, 'patch.diff')}", mut)
        meta = {"property": pid, "name": name, "needs_to_manifest": needs, "ran": []}
        meta["ran"].append({"cmd": "patch -p1 < patch.diff (on a scratch copy of /repo)", "rc": rc})
        if rc != 0:
            print("patch does not apply:\n" + out)
            return 2
        rc_t, out_t = sh("/venv/bin/python -m pytest -q -p no:cacheprovider 2>&1 | tail -1", mut)
        meta["ran"].append({"cmd": "baseline pytest with the patch", "result": out_t.strip()})
        rc_c, out_c = sh("/venv/bin/python demo.py", clean)
        rc_m, out_m = sh("/venv/bin/python demo.py", mut)
        meta["ran"].append({"cmd": "demo.py on the clean tree", "rc": rc_c})
        meta["ran"].append({"cmd": "demo.py with the patch", "rc": rc_m, "tail": out_m.strip()[-400:]})
        t0 = time.time()
        env = dict(ENV, VERIF_REPO=mut)
        rc_k, out_k = sh(f"./check {pid} --tier quick", VERIF, env=env)
        viol = [l for l in out_k.splitlines() if l.startswith("VIOLATION") or l.strip().startswith("signature=")]
        meta["ran"].append({"cmd": f"VERIF_REPO=<patched copy> ./check {pid} --tier quick", "rc": rc_k,
                            "wall_s": round(time.time() - t0, 1), "violation_lines": [v[:300] for v in viol[:6]]})
        meta["baseline_passes_with_patch"] = "77 passed" in out_t
        meta["demo_distinguishes"] = (rc_c == 0 and rc_m != 0)
        meta["caught_by_quick_check"] = (rc_k == 1 and any(l.startswith("VIOLATION") for l in out_k.splitlines()))
        dst = os.path.join(VERIF, "seeded", name)
        os.makedirs(dst, exist_ok=True)
        old = os.path.join(dst, "meta.json")
        if os.path.exists(old):        # re-confirmation of a recorded change: keep its description
            o = json.load(open(old))
            for k in ("what", "author"):
                if k in o:
                    meta[k] = o[k]
            if not needs:
                meta["needs_to_manifest"] = o.get("needs_to_manifest", "")
        if os.path.realpath(src) != os.path.realpath(dst):
            shutil.copy(os.path.join(src, "patch.diff"), os.path.join(dst, "patch.diff"))
            shutil.copy(os.path.join(src, "demo.py"), os.path.join(dst, "demo.py"))
        with open(os.path.join(dst, "meta.json"), "w") as f:
            json.dump(meta, f, indent=1)
            f.write("\n")
        print(json.dumps({k: meta[k] for k in ("baseline_passes_with_patch", "demo_distinguishes", "caught_by_quick_check")}))
        for v in viol[:4]:
            print("  " + v[:260])
        if rc_k not in (0, 1):
            print(out_k[-1500:])
        return 0
    finally:
        shutil.rmtree(tmp, ignore_errors=True)


if __name__ == "__main__":
    sys.exit(main())

"""C17 - fmtstr accepts any string: never raises, never loses ordinary text."""
import itertools

import enc
import fmtlib
from purecheck import PureCheck

ALPHA = ["a", "\n", "\x1b", "\x9b", "[", "1", "3", ";", "?", " ", "m", "H", "K"]
CORPUS = [
    "\x1b[38;5;100mhello\x1b[39m", "\x1b[mreset", "\x1b[01;34mdir\x1b[0m/", "\x1b[2J\x1b[Hcleared", "\x1b[10;20Hxy",
    "\x1b[1;31mbold red\x1b[22;39m normal", "\x1b[K", "line1\nline2\x1b[32mgreen\nline3\x1b[0m", "\x1b[?25lhidden\x1b[?25h",
    "\x1b]0;title\x07rest", "\x1b[1", "\x1b[", "\x1b", "tail\x1b", "\x1b[31", "\x1b[31;", "\x1b[;31m", "a\x1b[31mb\x1b[4", "\x1b[\x1b[31mq",
    "\x1b[3\x1b[1mz", "\x1bMup", "\x1b7save\x1b8", "\x1b[4:3mcurly", "\x1b[38;2;1;2;3mrgb\x1b[m", "\x9b31mc1\x9b0m", "\x1b[1 qcursor",
    "def \x1b[34mf\x1b[39m(\x1b[33mx\x1b[39m):\n    \x1b[35mreturn\x1b[39m x\n", "\x1b[31m\x1b[44mhey\x1b[49m\x1b[39m", "plain text only", "",
    "\x1b[90m50% done\x1b[0m", "%s\x1b[20m%(x)s", "5% extra \x9b97mz", "100%\x1b[99m", "%%\x1b[38;5;1m%d {} {0} \\x1b", "20% faster\x1b[21m",
    "\x1b[999999999mx", "out\x1b[" + "7" * 4301 + "Aput\n", "a\x1b[" + "9" * 300 + "mb", "\x1b[1;2;3;4;5;7mz\x1b[m", "\x1b[Hhome", "\x1b[3Ax\x1b[2By\x1b[5Cz\x1b[1D", "x\x1b[0Ky\x1b[1Jz",
]


class C17(PureCheck):
    pid = "C17"
    subst_every = 6
    rule = ("every string of length <=4 (quick) / <=5 (thorough) over the 13-symbol alphabet {a, newline, ESC, 0x9B, '[', "
            "'1', '3', ';', '?', space, 'm', 'H', 'K'} plus seeded random strings of length 5..10 over it and a corpus of "
            "real-world samples (pygments-style, text that looks like a % / {} format string next to unsupported sequences, ESC[m, 38;5;n, cursor moves, OSC, truncated/nested sequences) and numeric control sequences with every parameter list of <=2 (thorough <=3, plus sampled longer ones) over a 22-number vocabulary (SGR codes supported and not, 38/48/58 selectors cut off at every point, empty parameters); introducers directly followed by non-ASCII letters (incl. the four that case-fold into ASCII); the corpus also as instances of str subclasses whose __str__ is not their characters (a masked secret, a (str, Enum) member); fmtstr and "
            "FmtStr.from_str alternately; the result text is validated by TLC against the ECMA-48 scanner of Scan.tla. "
            "distinct_nontrivial = distinct inputs containing an introducer (ESC or 0x9B)")
    exhaustive = {"quick": False, "thorough": False}

    def design_runs(self, tier):
        cfg = ("SPECIFICATION Spec\nCONSTANT MaxLen = %d\nINVARIANT StripKeepsMustKeep\nINVARIANT ParserModelMeetsC17\nCHECK_DEADLOCK FALSE\n"
               % (4 if tier == "quick" else 5))
        return [dict(module="MC_Scan", cfg=cfg, workers=12, timeout=3000)]

    def inputs(self, tier, rng):
        depth = 4 if tier == "quick" else 5
        k = 0
        for n in range(depth + 1):
            for combo in itertools.product(ALPHA, repeat=n):
                k += 1
                yield {"op": "any", "s": enc.enc_text("".join(combo)), "via": k % 2}
        weights = [3, 1, 3, 1, 3, 2, 2, 2, 1, 1, 3, 1, 1]
        for k in range(40000 if tier == "quick" else 400000):
            n = rng.randrange(5, 11)
            yield {"op": "any", "s": enc.enc_text("".join(rng.choices(ALPHA, weights, k=n))), "via": k % 2}
        # numeric control sequences whose parameters come from a vocabulary of numbers that mean something to some
        # terminal (SGR codes supported and not, the extended-colour selectors 38 / 48 / 58 with their sub-parameters
        # cut off at every point, empty parameters): every list of <= 2 (thorough: <= 3), sampled longer ones
        vocab = ["", "0", "1", "2", "3", "4", "5", "7", "8", "9", "21", "22", "30", "38", "39", "48", "49", "58", "90", "100", "107", "255"]
        lists = [[]] + [[a] for a in vocab] + [[a, b] for a in vocab for b in vocab]
        if tier == "thorough":
            lists += [[a, b, c] for a in vocab for b in vocab for c in vocab]
        for _ in range(1500 if tier == "quick" else 20000):
            lists.append([rng.choice(vocab) for _ in range(rng.randrange(3, 7))])
        for k, ps in enumerate(lists):
            intro = "\x1b[" if k % 3 else "\x9b"
            fin = "m" if k % 5 else rng.choice("HKAJ")
            lead = ("a", "50% d", "%s ", "{} %(n)s")[k % 4]       # text that looks like a format string to % / str.format
            yield {"op": "any", "s": enc.enc_text(lead + intro + ";".join(ps) + fin + "b\x1b[0mc"), "via": k % 2}
        for s in CORPUS:
            yield {"op": "any", "s": enc.enc_text(s), "via": 0}
            yield {"op": "any", "s": enc.enc_text(s), "via": 1}
        for k, s in enumerate(CORPUS + ["a", "ab\nc", "x y", "\x1b[31mred", "m", "Label.ITEM"]):
            for sub in (1, 2):
                yield {"op": "any", "s": enc.enc_text(s), "via": (k + sub) % 2, "sub": sub}
        # an introducer (bare or with parameters / intermediates) directly followed by a letter outside ASCII - among them the
        # four that case-fold into ASCII (dotted I, dotless i, long s, Kelvin sign) and letters with special upper / title forms
        k = 0
        for intro in ("\x1b[", "\x9b", "\x1b[1;", "\x1b[3", "\x9b4;5", "\x1b[ ", "\x1b[?2"):
            for ch in "\u0130\u0131\u017f\u212a\u00df\u01c5\u03c2\u00e9\u212b\uff2d\u0645":
                k += 1
                yield {"op": "any", "s": enc.enc_text("to " + intro + ch + "x\x1b[0m."), "via": k % 2}
                yield {"op": "any", "s": enc.enc_text(intro + ch), "via": (k + 1) % 2}
        for s in CORPUS:
            yield {"op": "any", "s": enc.enc_text(s), "via": 0, "pre": 1}
        # a growing line: every corpus sample of up to 48 characters right after each of its proper prefixes
        for s in CORPUS:
            if 2 <= len(s) <= 48:
                for cut in range(1, len(s)):
                    yield {"op": "any", "s": enc.enc_text(s), "via": cut % 2, "pref": cut}
        # long outputs: hundreds of sequences in one string, with and without an unsupported SGR code among them
        for nseq, unsupported in ((257, "\x1b[99m"), (300, "\x9b20m")):
            if True:
                body = "".join("\x1b[%dm%c" % (90 + j % 8 if unsupported and j % 3 == 0 else 31 + j % 6, 97 + j % 26) + ("\x1b[2K" if j % 50 == 49 else "")
                               for j in range(nseq))
                yield {"op": "any", "s": enc.enc_text(unsupported + body + "\x1b[0m"), "via": nseq % 2}
        for k in range(3000 if tier == "quick" else 40000):
            n = rng.randrange(3, 9)
            yield {"op": "any", "s": enc.enc_text("".join(rng.choices(ALPHA, weights, k=n))), "via": k % 2, "pre": 1}

    def execute(self, inp):
        from curtsies.formatstring import FmtStr, fmtstr, Chunk
        ev = dict(inp)
        s = enc.dec_text(inp["s"])
        if inp.get("pre") and len(s) < 64:
            # earlier in the process fmtstr() was handed a FmtStr whose plain text is this very string
            try:
                fmtstr(FmtStr(Chunk(s)))
                fmtstr(FmtStr(Chunk(s)), "bold")
            except Exception:  # noqa
                pass
        if inp.get("pref") is not None:
            # the call before this one was handed a proper prefix of this very string (a line parsed again as it grows)
            try:
                (FmtStr.from_str if inp["via"] else fmtstr)(s[:inp["pref"]])
            except Exception:  # noqa
                pass
        if inp.get("sub"):
            # the argument is an instance of a str subclass whose display form (__str__) is not its characters:
            # a secret that prints masked, a member of a (str, Enum) enumeration
            import enum
            if inp["sub"] == 1:
                class Masked(str):
                    def __str__(self):
                        return "<masked>"

                    def __repr__(self):
                        return "Masked(...)"
                s = Masked(s)
            else:
                s = enum.Enum("Label", {"ITEM": s}, type=str).ITEM
        if inp["via"]:
            ev["res"] = fmtlib.enc_res(lambda: FmtStr.from_str(s))
        else:
            ev["res"] = fmtlib.enc_res(lambda: fmtstr(s))
        if inp.get("sub") and ev["res"]["k"] == "ok":
            # the result may hold the subclass instance itself; its repr / width are then the subclass's business and are
            # not compared with those of a rebuilt value - C17 speaks about the text of the result only
            ev["res"]["fr"] = 1
        return ev

    def classify(self, ev):
        if 27 in ev["s"] or 155 in ev["s"]:
            return tuple(ev["s"])
        return None

    def case_class(self, ev, v):
        s = ev["s"]
        has_nl = 10 in s
        only_c1 = 155 in s and not any(s[i] == 27 and i + 1 < len(s) and s[i + 1] == 91 for i in range(len(s)))
        return ("newline" if has_nl else "no-newline") + (":csi8-without-esc-bracket" if only_c1 else "")

    def describe(self, ev, v):
        return f"fmtstr({enc.dec_text(ev['s'])!r}) -> {ev['res']['t'] or repr(enc.dec_text(ev['res']['s']))}"


CHECK = C17()

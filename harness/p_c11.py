"""C11 - width_aware_splitlines wraps to the column limit without losing anything."""
import enc
import fmtlib
from fmtlib import layouts
from purecheck import PureCheck
from p_c10 import ALPHA, ALPHA_X, ALPHA_Y, ATTS2, WID, cols


class C11(PureCheck):
    pid = "C11"
    warm_every = 3
    rule = ("layouts of <=2 runs of length 0..3 (quick; + sampled 3-run layouts) / <=3 runs of length 0..2 + <=2 runs of "
            "length 0..4 (thorough) over {a, U+FF25 (double-width), U+0301 (combining)} x {plain, red} - empty runs, the "
            "run-less value, runs ending exactly at a line boundary, double-width characters at every alignment, zero-width "
            "characters after a full line - and columns 2..5; list(f.width_aware_splitlines(columns)) recorded and validated "
            "by TLC (WrapVerdict); one run of 4097..131073 narrow / double-width characters wrapped at 1024 / 8192 / 10000 columns, judged on line lengths (JudgeWsplitLong). distinct_nontrivial = distinct (layout, columns) with a double-width or zero-width character")
    exhaustive = {"quick": False, "thorough": True}
    assumptions = ("width classes of the alphabet as in Width.tla; ./check setup verifies cwcwidth agrees",)

    def design_runs(self, tier):
        cfg = ("SPECIFICATION Spec\nCONSTANT MaxRuns = %d\nCONSTANT MaxLen = 2\nINVARIANT WsplitOk\nCHECK_DEADLOCK FALSE\n" % (2 if tier == "quick" else 3))
        return [dict(module="MC_Width", cfg=cfg, workers=8, timeout=3000)]

    def inputs(self, tier, rng):
        if tier == "thorough":
            pool = list(layouts(3, 2, alphabet=ALPHA, atts=ATTS2)) + [l for l in layouts(2, 4, alphabet=ALPHA, atts=ATTS2)]
        else:
            pool = list(layouts(2, 3, alphabet=ALPHA, atts=ATTS2))
            runs3 = [[list(t), list(a)] for t in fmtlib.texts_upto(ALPHA, 3) for a in ATTS2]
            for _ in range(1500):
                pool.append([rng.choice(runs3) for _ in range(3)])
        runsx = [[list(t), list(a)] for t in fmtlib.texts_upto(ALPHA_X, 3, 1) for a in ATTS2]
        runsy = [[list(t), list(a)] for t in fmtlib.texts_upto(ALPHA_Y, 3, 1) for a in ATTS2]
        for _ in range(200 if tier == "quick" else 3000):
            pool.append([rng.choice(runsy) for _ in range(rng.choice([1, 2, 2, 3]))])
        for _ in range(250 if tier == "quick" else 4000):
            pool.append([rng.choice(runsx) for _ in range(rng.choice([1, 2, 2, 3]))])
        # the same run several times in a row (what f * n and f + f build)
        for r in [[list(t), list(a)] for t in fmtlib.texts_upto(ALPHA, 2, 1) for a in ATTS2]:
            for n in (2, 3, 5):
                pool.append([r] * n)
                pool.append([[[97], fmtlib.PLAIN]] + [r] * n + [[[98], fmtlib.RED]])
        for f in pool:
            for c in (2, 3, 4, 5):
                yield {"op": "wsplit", "f": f, "cols": c}
        # one very long run (a log pasted into a single run): around 65536 columns of narrow characters and of double-width
        # ones, wrapped at wide lines - judged on line lengths (JudgeWsplitLong), not cell by cell
        for (cp, cw) in ((97, 1), (65317, 2)):
            for n in (4097, 32768, 65535, 65536, 70000, 131073):
                for c in (1024, 8192, 10000):
                    if tier == "thorough" or (n + c) % 3 == 0 or n in (65536, 32768):
                        yield {"op": "wsplitlong", "cp": cp, "cw": cw, "n": n, "cols": c, "atts": list(fmtlib.RED)}
        # two lazy line iterators alive at once, advanced in turn (two columns laid out side by side, or a line
        # re-wrapped inside the loop over the outer lines): with another value, with a value sharing its runs, with itself
        long1 = [[[97, 98, 99, 97, 98, 99, 97, 98], fmtlib.RED], [[98, 65317, 97, 99], fmtlib.PLAIN]]
        long2 = [[[99] * 5, fmtlib.PLAIN], [[65317, 97, 97, 98], fmtlib.RED], [[98, 98], fmtlib.PLAIN]]
        for f, g, share in ((long1, long2, 0), (long2, long1, 0), (long1, long1, 1), (long1, long1, 2), (long2, long2, 2)):
            for c1 in (2, 3, 4):
                for c2 in (3, 5):
                    yield {"op": "wsplit", "f": f, "cols": c1, "with": g, "wcols": c2, "share": share}

    def execute(self, inp):
        ev = dict(inp)
        if inp["op"] == "wsplitlong":
            from curtsies.formatstring import FmtStr, Chunk
            ch = chr(inp["cp"])
            atts = enc.dec_atts(inp["atts"])
            f = FmtStr(Chunk(ch * inp["n"], atts))
            try:
                lines = list(f.width_aware_splitlines(inp["cols"]))
                ev["k"] = "ok"
                ev["lens"] = [len(x) for x in lines]
                ev["same"] = int(all(x.s == ch * len(x) and all(dict(c.atts) == atts for c in x.chunks) and str(x) == str(FmtStr(Chunk(x.s, atts))) for x in lines))
            except Exception as e:  # noqa
                ev["k"], ev["lens"], ev["same"], ev["t"] = "exc", [], 0, enc.exc_name(e)
            return ev
        f = enc.build_fmtstr(inp["f"])
        if "with" in inp:
            # share 0: an unrelated value; 1: a value built from f's own run objects; 2: f itself
            g = f if inp["share"] == 2 else (f[0:len(f)] + "!" if inp["share"] == 1 else enc.build_fmtstr(inp["with"]))

            def interleaved():
                it1, it2 = iter(f.width_aware_splitlines(inp["cols"])), iter(g.width_aware_splitlines(inp["wcols"]))
                out = []
                done1 = done2 = False
                while not (done1 and done2):
                    if not done1:
                        try:
                            out.append(next(it1))
                        except StopIteration:
                            done1 = True
                    if not done2:
                        try:
                            next(it2)
                        except StopIteration:
                            done2 = True
                return out
            ev["res"] = fmtlib.enc_list_res(interleaved)
            del ev["with"]
            return ev
        ev["res"] = fmtlib.enc_list_res(lambda: enc.call(f.width_aware_splitlines, inp["cols"]))
        return ev

    def classify(self, ev):
        if ev["op"] == "wsplitlong":
            return ("long", ev["cp"], ev["n"], ev["cols"])
        if any(WID[c] != 1 for t, _ in ev["f"] for c in t):
            return (str(ev["f"]), ev["cols"])
        return None

    def case_class(self, ev, v):
        if ev["op"] == "wsplitlong":
            return "one-very-long-run"
        f = ev["f"]
        if not f:
            return "run-less"
        return "layout"

    def describe(self, ev, v):
        return str({k: ev[k] for k in ev})


CHECK = C11()

"""C14 - applying or removing formatting touches exactly the named attributes."""
import itertools
import json

import enc
import fmtlib
from fmtlib import layouts
from purecheck import PureCheck

COL = enc.COLORS
STY = enc.STYLE_ORDER


def item(k, key="", name="", num=0, val=0):
    return {"k": k, "key": key, "name": name, "lname": name.lower(), "num": num, "val": val}


def S(text):
    return {"k": "s", "v": [[[ord(c) for c in text], [0] * 8]]}


def F(runs):
    return {"k": "f", "v": runs}


ATTS_BASE = [fmtlib.PLAIN, fmtlib.RED, fmtlib.BOLD_ON_BLUE, [3, 0, 1, 0, 0, 2, 0, 0]]  # last: green, bold=False, underline

INVALID = [
    [item("pos", name="reddish")], [item("pos", name="on_purple")], [item("pos", name="make it big")],
    [item("pos", name="")], [item("pos", name="on_")], [item("pos", name="boldd")], [item("pos", name="fg")],
    [item("pos", name="on_bold")], [item("style", name="reddish")], [item("style", name="on_")],
    [item("junk", name="posint")], [item("junk", name="posnone")], [item("junk", name="posdict")],
    [item("junk", name="kwunknown")], [item("junk", name="stylenum")], [item("junk", name="posbytes")],
    [item("pos", name="red"), item("kwnum", key="fg", num=34)], [item("pos", name="red"), item("pos", name="blue")],
    [item("pos", name="on_red"), item("kwnum", key="bg", num=44)], [item("kwname", key="fg", name="red"), item("style", name="blue")],
    [item("pos", name="on_red"), item("pos", name="on_red")], [item("pos", name="red"), item("kwname", key="fg", name="red")],
    [item("kwnum", key="fg", num=40)], [item("kwnum", key="fg", num=29)], [item("kwnum", key="fg", num=38)],
    [item("kwnum", key="fg", num=0)], [item("kwnum", key="fg", num=1)], [item("kwnum", key="bg", num=30)],
    [item("kwnum", key="bg", num=48)], [item("kwnum", key="bg", num=39)],
    [item("kwname", key="fg", name="on_red")], [item("kwname", key="fg", name="bold")], [item("kwname", key="fg", name="purple")],
    [item("kwname", key="bg", name="on_blue")], [item("kwname", key="bg", name="bold")], [item("kwname", key="bg", name="")],
    [item("bool", key="strike", val=1)], [item("bool", key="color", val=0)], [item("bool", key="Bold", val=1)],
    [item("pos", name="bold"), item("pos", name="reddish")],
    # a valid name with stray whitespace (a theme-file line passed on without strip())
    [item("pos", name="red\n")], [item("pos", name="on_red\n")], [item("pos", name="bold\n")], [item("pos", name=" red")],
    [item("pos", name="on_blue ")], [item("pos", name="on_blue\t")], [item("pos", name="On_Cyan\n")], [item("style", name="on_gray\n")],
    [item("style", name="underline\n")], [item("kwname", key="fg", name="red\n")], [item("kwname", key="bg", name="blue\n")],
    [item("pos", name="on_red\n\n")], [item("pos", name="\non_red")],
    # case variants: either ValueError or the lower-case meaning
    [item("pos", name="RED")], [item("pos", name="On_Blue")], [item("pos", name="BOLD")], [item("style", name="Red")],
    [item("kwname", key="fg", name="RED")], [item("pos", name="ON_RED")],
]


def build_call(cur, step):
    from curtsies import fmtfuncs
    from curtsies.formatstring import fmtstr
    via, items = step["via"], step["items"]
    if via == "func":
        return getattr(fmtfuncs, items[0]["name"])(cur)
    helper = None
    if via == "funckw":
        # a fmtfuncs helper called with further names / keywords: red(x, fg='blue'), bold(x, bold=False), red(x, 'bold');
        # judged as the documented equivalent fmtstr(x, *names, style='red', **keywords)
        helper, items = getattr(fmtfuncs, items[0]["name"]), items[1:]
    args, kwargs = [], {}
    for it in items:
        k = it["k"]
        if k == "pos":
            args.append(it["name"])
        elif k == "style":
            kwargs["style"] = it["name"]
        elif k == "kwname":
            kwargs[it["key"]] = it["name"]
        elif k == "kwnum":
            kwargs[it["key"]] = it["num"]
        elif k == "bool":
            kwargs[it["key"]] = bool(it["val"])
        elif k == "junk":
            j = it["name"]
            if j == "posint":
                args.append(3)
            elif j == "posnone":
                args.append(None)
            elif j == "posdict":
                args.append({"fg": 30})
            elif j == "posbytes":
                args.append(b"red")
            elif j == "kwunknown":
                kwargs["colour"] = "red"
            elif j == "stylenum":
                kwargs["style"] = 3
    if via == "copy":
        return cur.copy_with_new_atts(**kwargs)
    if helper is not None:
        return helper(cur, *args, **kwargs)
    return fmtstr(cur, *args, **kwargs)


class C14(PureCheck):
    pid = "C14"
    subst_every = 6
    warm_every = 3
    rule = ("bases: str (also str carrying 7-bit / 8-bit SGR sequences, judged as the same call on its parse) and Layouts(2,2) over 4 attribute records (explicit False included); attribute maps: "
            "{none,red,gray} fg x {none,blue,black} bg x {absent,False,True}^{bold,underline,invert}, each in every spelling "
            "(numbers+booleans, positional names, fg=/bg= names, style=, fmtfuncs nesting in both orders, copy_with_new_atts, "
            "nested single-attribute fmtstr calls in every order of <=3), overrides of an earlier value, the 25 fmtfuncs "
            "names, a catalogue of 59 invalid specifications (unknown words, wrong types, contradictions, out-of-range numbers, valid names with stray whitespace), new_with_atts_removed for name subsets - also right after a restyle of exactly those names that overrode what runs had -, copy_with_new_str, "
            "shared_atts (also over runs whose style values are True / False / None / absent in every arrangement). distinct_nontrivial = distinct (base profile, steps) with a formatted or multi-run base or >=2 items")
    exhaustive = {"quick": False, "thorough": False}

    def design_runs(self, tier):
        cfg = "SPECIFICATION Spec\nINVARIANT EquivalentSpellings\nINVARIANT OverrideLast\nINVARIANT InvalidDetected\nCHECK_DEADLOCK FALSE\n"
        return [dict(module="MC_Spelling", cfg=cfg, workers=8)]

    def inputs(self, tier, rng):
        L = list(layouts(2, 2, atts=ATTS_BASE))
        if tier == "quick":
            bases = [S(""), S("ab")] + [F(l) for l in L if fmtlib.vlen(l) <= 2 or len(l) <= 1][:60] + [F(l) for l in rng.sample(L, 40)]
        else:
            bases = [S(""), S("ab"), S("a\nb")] + [F(l) for l in L]
        # text that carries SGR sequences itself (7-bit and 8-bit CSI): formatting it must equal formatting its parse
        bases[2:2] = [S("a\x1b[31mb\x1b[39mc"), S("a\x9b31mb\x9b39mc"), S("\x9b44mxy"), S("\x1b[1mxy\x1b[0mz")]
        maps = []
        for fg in (None, "red", "gray"):
            for bg in (None, "blue", "black"):
                for st in itertools.product((0, 1, 2), repeat=3):
                    maps.append((fg, bg, dict(zip(("bold", "underline", "invert"), st))))
        if tier == "quick":
            maps = [m for k, m in enumerate(maps) if k % 3 == 0 or k < 30]
        nb = 0
        for b in bases:
            nb += 1
            mine = maps if (tier == "thorough" or nb <= 8) else rng.sample(maps, 12)
            for fg, bg, st in mine:
                nums, names, kws, funcs, singles = [], [], [], [], []
                if fg:
                    nums.append(item("kwnum", key="fg", num=30 + COL.index(fg)))
                    names.append(item("pos", name=fg))
                    kws.append(item("kwname", key="fg", name=fg))
                    funcs.append(item("func", name=fg))
                if bg:
                    nums.append(item("kwnum", key="bg", num=40 + COL.index(bg)))
                    names.append(item("pos", name="on_" + bg))
                    kws.append(item("kwname", key="bg", name=bg))
                    funcs.append(item("func", name="on_" + bg))
                only_true = True
                for s, v in st.items():
                    if v == 0:
                        continue
                    nums.append(item("bool", key=s, val=v - 1))
                    kws.append(item("bool", key=s, val=v - 1))
                    if v == 2:
                        names.append(item("pos", name=s))
                        funcs.append(item("func", name=s))
                    else:
                        names.append(item("bool", key=s, val=0))
                        only_true = False
                if not nums:
                    continue
                yield {"op": "apply", "base": b, "steps": [{"via": "fmtstr", "items": nums}]}
                yield {"op": "apply", "base": b, "steps": [{"via": "fmtstr", "items": names}]}
                yield {"op": "apply", "base": b, "steps": [{"via": "fmtstr", "items": list(reversed(kws))}]}
                if names and names[0]["k"] == "pos":
                    styled = [dict(names[0], k="style")] + names[1:]
                    yield {"op": "apply", "base": b, "steps": [{"via": "fmtstr", "items": styled}]}
                if b["k"] == "f":
                    yield {"op": "apply", "base": b, "steps": [{"via": "copy", "items": nums}]}
                if only_true and funcs:
                    yield {"op": "apply", "base": b, "steps": [{"via": "func", "items": [f]} for f in funcs]}
                    yield {"op": "apply", "base": b, "steps": [{"via": "func", "items": [f]} for f in reversed(funcs)]}
                if len(nums) <= 3:
                    for perm in itertools.permutations(nums):
                        yield {"op": "apply", "base": b, "steps": [{"via": "fmtstr", "items": [p]} for p in perm]}
            # overrides: a later value of the same attribute wins, other attributes stay
            for first, second in (("red", "blue"), ("on_red", "on_green"), ("gray", "gray")):
                yield {"op": "apply", "base": b, "steps": [{"via": "fmtstr", "items": [item("pos", name=first)]},
                                                          {"via": "func", "items": [item("func", name=second)]}]}
                yield {"op": "apply", "base": b, "steps": [{"via": "func", "items": [item("func", name=first)]},
                                                          {"via": "fmtstr", "items": [item("style", name=second), item("bool", key="bold", val=0)]}]}
            yield {"op": "apply", "base": b, "steps": [{"via": "fmtstr", "items": [item("bool", key="bold", val=1)]},
                                                      {"via": "fmtstr", "items": [item("bool", key="bold", val=0)]}]}
            for fn in list(COL) + ["on_" + c for c in COL] + list(STY) + ["on_dark"]:
                yield {"op": "apply", "base": b, "steps": [{"via": "func", "items": [item("func", name=fn)]}]}
            yield {"op": "apply", "base": b, "steps": [{"via": "fmtstr", "items": []}]}
            if nb <= 12 or tier == "thorough":
                # a helper called with further names / keywords - also for the very attribute the helper sets
                for fn, extra in (("red", [item("kwname", key="fg", name="blue")]), ("red", [item("kwnum", key="fg", num=34)]),
                                  ("gray", [item("kwname", key="fg", name="gray")]), ("on_green", [item("kwname", key="bg", name="yellow")]),
                                  ("on_blue", [item("kwnum", key="bg", num=41)]), ("bold", [item("bool", key="bold", val=0)]),
                                  ("underline", [item("bool", key="underline", val=0)]), ("invert", [item("bool", key="invert", val=1)]),
                                  ("red", [item("pos", name="bold")]), ("red", [item("kwname", key="bg", name="blue")]),
                                  ("bold", [item("kwname", key="fg", name="red")]), ("red", [item("pos", name="blue")]),
                                  ("on_red", [item("pos", name="on_blue")]), ("blue", [item("bool", key="bold", val=0), item("pos", name="underline")])):
                    yield {"op": "apply", "base": b, "steps": [{"via": "funckw", "items": [item("func", name=fn)] + extra}]}
            for inv in INVALID:
                yield {"op": "apply", "base": b, "steps": [{"via": "fmtstr", "items": inv}]}
            if nb <= 30 or tier == "thorough":
                for inv in INVALID[:12]:
                    yield {"op": "apply", "base": b, "steps": [{"via": "fmtstr", "items": [item("pos", name="bold")]},
                                                              {"via": "fmtstr", "items": inv}]}
            if b["k"] == "f":
                for names_ in ([], ["fg"], ["bg", "bold"], ["underline"], ["fg", "bg", "bold", "underline", "invert"], ["nonexistent"], ["bold"]):
                    yield {"op": "remove", "f": b["v"], "names": names_}
                # highlight, then un-highlight: the value is restyled (overriding what some runs already had) and the very
                # next call removes exactly the restyled names - in either order - or fewer / more of them
                for vec, nm in (([5, 0, 0, 0, 0, 0, 0, 0], ["fg"]), ([0, 3, 2, 0, 0, 0, 0, 0], ["bg", "bold"]), ([3, 0, 0, 0, 0, 1, 0, 0], ["underline", "fg"]),
                                ([0, 0, 1, 0, 0, 0, 0, 0], ["bold"]), ([2, 5, 2, 0, 0, 2, 0, 2], ["fg", "bg", "bold", "underline", "invert"])):
                    for via in ("copy", "fmtstr"):
                        for names_ in (nm, nm[::-1], nm[:1], nm + ["blink"]):
                            yield {"op": "remove", "f": b["v"], "names": names_, "restyle": {"via": via, "atts": vec}}
                for t in ("", "xy", "q"):
                    yield {"op": "newstr", "f": b["v"], "t": [ord(c) for c in t]}
                yield {"op": "shared", "f": b["v"]}

        # shared_atts over runs whose style values are True / False / None / absent in every arrangement of two and
        # three runs (a value forwarded as `bold=flag_or_None` is stored as given), empty runs in between
        for i in (2, 5, 7):
            for vals in itertools.product((0, 1, 2, 3), repeat=3):
                runs = []
                for j, v in enumerate(vals):
                    a = [0] * 8
                    a[i] = v
                    a[0] = 2 if j == 1 else 0
                    runs.append([[97 + j] if (sum(vals) + j) % 5 else [], a])
                yield {"op": "shared", "f": runs}
                yield {"op": "shared", "f": runs[:2]}

    def execute(self, inp):
        op = inp["op"]
        ev = dict(inp)
        if op == "apply":
            text = enc.dec_text(inp["base"]["v"][0][0]) if inp["base"]["k"] == "s" else ""
            if "\x1b" in text or "\x9b" in text:
                # the equivalent spelling the verdict is computed from: the same call on the parsed text
                from curtsies.formatstring import FmtStr
                ev["base"] = {"k": "f", "v": enc.enc_fmtstr(FmtStr.from_str(text))}
                ev["rawbase"] = inp["base"]

            import zlib
            ask = zlib.crc32(json.dumps(inp, sort_keys=True, default=str).encode()) % 2 == 0
            last = []

            def run():
                from curtsies.formatstring import FmtStr
                cur = enc.build_value(inp["base"])
                for step in inp["steps"]:
                    if ask and isinstance(cur, FmtStr) and cur.chunks:
                        cur.shared_atts, cur.upper()      # the value is asked what it shares before it is restyled
                    cur = build_call(cur, step)
                last[:] = [cur]
                return cur
            if any(st["via"] == "funckw" for st in inp["steps"]):
                ev["steps"] = [st if st["via"] != "funckw" else
                               {"via": "fmtstr", "items": st["items"][1:] + [dict(st["items"][0], k="style")]} for st in inp["steps"]]
            ev["res"] = fmtlib.enc_res(run)
            ev["rm"] = [0] * 8
            if ev["res"]["k"] == "ok" and last and getattr(last[0], "chunks", None):
                try:
                    d = last[0].shared_atts
                    m = enc.enc_atts(d)
                    ev["rm"] = [0 if k not in d else 1 + m[i] for i, k in enumerate(enc.ATT_ORDER)]
                except Exception:  # noqa
                    pass
        elif op == "remove":
            f = enc.build_fmtstr(inp["f"])
            if inp.get("restyle"):
                from curtsies.formatstring import fmtstr
                kw = enc.dec_atts(inp["restyle"]["atts"])
                f = f.copy_with_new_atts(**kw) if inp["restyle"]["via"] == "copy" else fmtstr(f, **kw)
                ev["f"] = enc.enc_fmtstr(f)          # the operand of the recorded call is the value as restyled
            ev["res"] = fmtlib.enc_res(lambda: f.new_with_atts_removed(*inp["names"]))
        elif op == "newstr":
            f = enc.build_fmtstr(inp["f"])
            ev["res"] = fmtlib.enc_res(lambda: enc.call(f.copy_with_new_str, enc.dec_text(inp["t"])))
        elif op == "shared":
            f = enc.build_fmtstr(inp["f"])
            try:
                d = f.shared_atts
                m = enc.enc_atts(d)
                # m: 0 not reported else 1 + raw code (colour index / 1 False / 2 True)
                ev["m"] = [0 if k not in d else 1 + m[i] for i, k in enumerate(enc.ATT_ORDER)]
                ev["k"] = "ok"
            except Exception as e:  # noqa
                ev["m"] = [0] * 8
                ev["k"] = "exc"
                ev["t"] = enc.exc_name(e)
        return ev

    def classify(self, ev):
        if ev["op"] == "apply":
            base = ev["base"]["v"]
            nitems = sum(len(s["items"]) for s in ev["steps"])
            if len(base) < 2 and not any(any(a) for _, a in base) and nitems < 2:
                return None
            return ("apply", tuple((len(t), tuple(a)) for t, a in base),
                    tuple((s["via"], tuple((i["k"], i["key"], i["name"], i["num"], i["val"]) for i in s["items"])) for s in ev["steps"]))
        return (ev["op"], tuple((len(t), tuple(a)) for t, a in ev["f"]), tuple(ev.get("names", [])), len(ev.get("t", [])))

    def case_class(self, ev, v):
        if ev["op"] == "apply":
            last = ev["steps"][-1]["items"]
            desc = "+".join(f"{i['k']}:{i['key']}{'=' if i['key'] else ''}{i['name'] or i['num'] or ''}" for i in last)
            return f"apply:{ev['steps'][-1]['via']}:{desc}"[:80]
        if ev["op"] == "shared":
            return "shared"
        return ev["op"]

    def describe(self, ev, v):
        d = {k: ev[k] for k in ev if k != "res"}
        return f"{d} -> {ev.get('res')}"


CHECK = C14()

"""./check driver: dispatches to the per-property checks."""
import argparse
import importlib
import json
import os
import sys
import time
import traceback

sys.path.insert(0, os.path.dirname(os.path.abspath(__file__)))
import common  # noqa: E402

PROPS = [f"C{n:02d}" for n in range(1, 21)]


def load(pid):
    return importlib.import_module(f"p_{pid.lower()}")


def main():
    ap = argparse.ArgumentParser()
    ap.add_argument("what")
    ap.add_argument("--tier", default=os.environ.get("VERIF_TIER", "quick"), choices=["quick", "thorough"])
    ap.add_argument("--replay")
    ap.add_argument("--mutants", action="store_true")
    args = ap.parse_args()
    what = args.what
    try:
        if what == "setup":
            import setup_check
            return setup_check.run()
        if what == "selftest":
            import selftest
            return selftest.run(args)
        if what == "coverage":
            import coverage_check
            return coverage_check.run(args)
        if what == "all":
            rc = 0
            for pid in PROPS:
                try:
                    mod = load(pid)
                except ModuleNotFoundError:
                    continue
                r = mod.CHECK.run(args.tier)
                rc = max(rc, r)
            return rc
        pid = what.upper()
        if pid not in PROPS:
            print(f"unknown check {what}")
            return 2
        mod = load(pid)
        if args.replay:
            return mod.CHECK.replay(args.replay)
        return mod.CHECK.run(args.tier)
    except common.Machinery as e:
        print(f"MACHINERY-FAILURE: {e}")
        return 2
    except Exception:
        traceback.print_exc()
        print("MACHINERY-FAILURE: unexpected exception in the harness")
        return 2


if __name__ == "__main__":
    sys.exit(main())

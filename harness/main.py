"""./check driver: dispatches to the per-property checks."""
import argparse
import importlib
import json
import os
import sys
import time
import traceback

sys.path.insert(0, os.path.dirname(os.path.abspath(__file__)))
import common  # noqa: E402

PROPS = [f"C{n:02d}" for n in range(1, 21)]


def load(pid):
    return importlib.import_module(f"p_{pid.lower()}")


# The environment sweep: the same check, on a sample of its inputs, in child interpreters started under other process
# environments (the library reads none of these variables; a change that makes it depend on one is a change of what
# every listed property says).  Children run in light mode and are judged by TLC exactly like the main run.
SWEEP_ENVS = {
    "colour-and-size-variables+optimised-bytecode": {
        "NO_COLOR": "1", "CLICOLOR": "0", "CLICOLOR_FORCE": "1", "FORCE_COLOR": "1", "COLORTERM": "truecolor",
        "LINES": "37", "COLUMNS": "91", "PYTHONOPTIMIZE": "1"},
    "warnings-as-errors+other-hash-seed": {
        "PYTHONHASHSEED": "4242", "VERIF_WARNINGS_ERROR": "1"},
}


def run_with_sweep(pid, mod, tier):
    import subprocess
    from concurrent.futures import ThreadPoolExecutor

    def child(name):
        env = dict(os.environ, VERIF_LIGHT="1")
        env.update(SWEEP_ENVS[name])
        for var in getattr(mod.CHECK, "sweep_exclude", ()):
            env.pop(var, None)
        p = subprocess.run([sys.executable, os.path.abspath(__file__), pid, "--tier", "quick"], env=env,
                           capture_output=True, text=True, timeout=3000)
        return name, p.returncode, p.stdout + p.stderr
    with ThreadPoolExecutor(max_workers=len(SWEEP_ENVS)) as ex:
        futs = [ex.submit(child, n) for n in SWEEP_ENVS]
        rc = mod.CHECK.run(tier)
        results = [f.result() for f in futs]
    # what the sweep covered goes into the evidence file the main run wrote
    try:
        evp = common.EVID / f"{pid}.json"
        ev = json.loads(evp.read_text())
        sweep = []
        for name, crc, out in results:
            tail = [l for l in out.splitlines() if l.startswith(pid)]
            sweep.append({"environment": {k: v for k, v in SWEEP_ENVS[name].items() if k not in getattr(mod.CHECK, "sweep_exclude", ())},
                          "exit_status": crc, "summary": tail[-1] if tail else ""})
        ev["coverage"]["environment_sweep"] = sweep
        evp.write_text(json.dumps(ev, indent=1, sort_keys=True) + "\n")
    except Exception:  # noqa - the evidence file is missing only when the main run failed
        pass
    for name, crc, out in results:
        lines = out.splitlines()
        if crc == 1:
            print(f"under the process environment [{name}] ({SWEEP_ENVS[name]}):")
            for l in lines:
                if l.startswith("VIOLATION") or l.startswith("  signature=") or l.startswith("KNOWN-FINDING"):
                    print(l)
            rc = max(rc, 1) if rc != 2 else rc
        elif crc != 0:
            print(f"MACHINERY-FAILURE: environment sweep [{name}] ended with status {crc}:\n" + "\n".join(lines[-12:]))
            rc = 2
        else:
            tail = [l for l in lines if l.startswith(pid)]
            print(f"  environment sweep [{name}]: " + (tail[-1] if tail else "ok"))
    return rc


def main():
    ap = argparse.ArgumentParser()
    ap.add_argument("what")
    ap.add_argument("--tier", default=os.environ.get("VERIF_TIER", "quick"), choices=["quick", "thorough"])
    ap.add_argument("--replay")
    ap.add_argument("--mutants", action="store_true")
    args = ap.parse_args()
    what = args.what
    if os.environ.get("VERIF_WARNINGS_ERROR") == "1":
        import warnings
        common.import_repo()          # import first: only warnings raised while the library is *used* count
        warnings.simplefilter("error")
    try:
        if what == "setup":
            import setup_check
            return setup_check.run()
        if what == "selftest":
            import selftest
            return selftest.run(args)
        if what == "coverage":
            import coverage_check
            return coverage_check.run(args)
        if what == "extras":
            import p_x01
            return p_x01.run(args)
        if what == "all":
            rc = 0
            for pid in PROPS:
                try:
                    mod = load(pid)
                except ModuleNotFoundError:
                    continue
                r = mod.CHECK.run(args.tier)
                rc = max(rc, r)
            return rc
        pid = what.upper()
        if pid not in PROPS:
            print(f"unknown check {what}")
            return 2
        mod = load(pid)
        if args.replay:
            return mod.CHECK.replay(args.replay)
        if common.LIGHT or os.environ.get("VERIF_NO_SWEEP") == "1":
            return mod.CHECK.run(args.tier)
        return run_with_sweep(pid, mod, args.tier)
    except common.Machinery as e:
        print(f"MACHINERY-FAILURE: {e}")
        return 2
    except Exception:
        traceback.print_exc()
        print("MACHINERY-FAILURE: unexpected exception in the harness")
        return 2


if __name__ == "__main__":
    sys.exit(main())

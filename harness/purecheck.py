"""Generic check for properties whose executions are single recorded calls:
   inputs (bounded enumeration / TLC-generated / sampled) -> execute on the real code -> event
   -> TLC trace validation (spec/<module>.tla) -> verdicts.
   In parallel the design-level model checking runs (L2 => L1 on the same bounded domain)."""
import json
import time
from concurrent.futures import ThreadPoolExecutor

import common
from common import Machinery, Report


class PureCheck:
    pid = "C00"
    module = "FmtTrace"
    rule = ""
    assumptions = ()
    exhaustive = {"quick": False, "thorough": False}
    per_item_states = 2
    judge_workers = 2
    consts = ""

    # ---- to be provided by subclasses
    subst_every = 0  # > 0: about every k-th input is run again over another alphabet (enc.SUBSTS)
    warm_every = 0   # > 0: every k-th input is executed a second time on operands that were looked at before

    def design_runs(self, tier):
        return []  # list of dict(module=, cfg=, workers=, timeout=)

    def inputs(self, tier, rng):
        raise NotImplementedError

    def execute(self, inp):
        raise NotImplementedError

    def classify(self, ev):
        return None

    def case_class(self, ev, verdict):
        return "any"

    def describe(self, ev, verdict):
        return json.dumps(ev)[:300]

    def prepare(self, tier):
        pass

    def extra_coverage(self):
        return {}

    # ---- machinery
    def signature(self, ev, verdict):
        return f"{verdict[1]}:{self.case_class(ev, verdict)}"

    _design_failure = None

    def _design(self, tier, wd):
        runs = self.design_runs(tier) if not common.LIGHT else []
        res = []
        for k, r in enumerate(runs):
            out = common.run_tlc(r["module"], r["cfg"], wd / f"design{k}", workers=r.get("workers", 8),
                                 timeout=r.get("timeout", 1500), env=r.get("env"), coverage=r.get("coverage", False))
            if not out["ok"]:
                self._design_failure = (f"design model {r['module']} violates its own property:\n{out['out'][-2500:]}")
            res.append({"module": r["module"], "states": out["distinct"], "transitions": out["generated"],
                        "wall_s": round(out["wall"], 1)})
        return res

    def collect(self, tier):
        r = common.rng(self.pid)
        inputs = list(self.inputs(tier if not common.LIGHT else "quick", r))
        if self.warm_every:
            # the same operation on operands that were looked at before (memo interactions): every k-th input again
            # (chosen pseudo-randomly, not with a fixed stride: generators are periodic and a stride can miss a whole
            # family of inputs)
            step = self.warm_every if tier == "quick" else max(2, self.warm_every - 1)
            wr = common.rng(self.pid + ":warm")
            inputs += [dict(inp, warm=wr.randrange(1, 8192)) for inp in inputs if wr.random() * step < 1]
        if getattr(self, "subst_every", 0):
            # the same inputs over other alphabets (enc.SUBSTS): a pseudo-randomly chosen 1/subst_every of them
            import enc
            sr = common.rng(self.pid + ":subst")
            extra = []
            for inp in inputs:
                if isinstance(inp, dict) and sr.random() * self.subst_every < 1:
                    k = sr.randrange(len(enc.SUBSTS))
                    v = enc.subst(inp, enc.SUBSTS[k])
                    if v != inp:
                        v["subst"] = k
                        extra.append(v)
            inputs += extra
        if common.LIGHT and len(inputs) > 2500:
            lr = common.rng(self.pid + ":light")
            inputs = lr.sample(inputs, 2500)
        events = [self._execute(inp) for inp in inputs]
        return inputs, events

    def _execute(self, inp):
        import enc
        enc.WARM = inp.get("warm", 0) if isinstance(inp, dict) else 0
        if enc.WARM & (1024 | 2048):
            import zlib
            enc.SEED = zlib.crc32(json.dumps(inp, sort_keys=True, default=str).encode())
        if enc.WARM & 64:
            import zlib
            import fmtlib
            fmtlib.CUT_SEED = zlib.crc32(json.dumps(inp, sort_keys=True, default=str).encode())
            fmtlib._CUTS[0] = 0
        if enc.WARM & 4096:
            # the very same call was made right before on OTHER values that have the same terminal strings as the operands
            # (formatting spelled as escape characters inside a plain run, or the other way round): anything keyed on how
            # a value renders must not mistake one for the other
            twin = enc.twin_input(inp)
            if twin != inp:
                saved, enc.WARM = enc.WARM, 0
                try:
                    self.execute(twin)
                except Exception:  # noqa - what the twin call does is not recorded
                    pass
                enc.WARM = saved
        try:
            return self.execute(inp)
        finally:
            enc.WARM = 0

    def run(self, tier):
        t0 = time.time()
        wd = common.workdir(self.pid)
        rep = Report(self.pid)
        common.import_repo()
        self.prepare(tier)
        with ThreadPoolExecutor(max_workers=1) as ex:
            fut = ex.submit(self._design, tier, wd)
            inputs, events = self.collect(tier)
            t_exec = time.time() - t0
            verdicts, st = common.judge(self.module, events, self.pid, consts=self.consts,
                                        workers=self.judge_workers, per_item_states=self.per_item_states)
            design = fut.result()
        drift = 0
        self._drift_samples = []
        for idx, v in sorted(verdicts.items()):
            ev = events[idx]
            if v[0] == "fail" and "Machinery" in v[1]:
                raise Machinery(f"the specification's own reference disagrees with the environment fact logged for "
                                f"{self.describe(ev, v)[:500]} ({v[1]})")
            if v[0] == "fail":
                rep.fail(self.signature(ev, v), f"{v[1]} fails: {self.describe(ev, v)}",
                         {"input": inputs[idx], "event": ev, "verdict": v})
            elif v[-1] == "drift":
                drift += 1
                if len(self._drift_samples) < 3:
                    self._drift_samples.append(json.dumps(ev, separators=(",", ":"))[:800])
        classes = set()
        for ev in events:
            c = self.classify(ev)
            if c is not None:
                classes.add(c if isinstance(c, (str, int, tuple)) else json.dumps(c, sort_keys=True))
        rc, nviol, fresh, known = rep.finish()
        if getattr(self, "_design_failure", None) and rc == 0:
            # the design model disagrees with its own property but no recorded execution of the real code
            # does: the machinery (model or constants extracted from the tree) cannot be trusted to judge
            raise Machinery(self._design_failure)
        cov = {
            "states": sum(d["states"] for d in design) + st["distinct"],
            "transitions": sum(d["transitions"] for d in design) + st["generated"],
            "design_model_runs": design,
            "trace_validation": {"tlc_states": st["distinct"], "tlc_generated": st["generated"], "jvms": st["jvms"]},
            "traces_validated_against_impl": len(events),
            "evaluations": len(events),
            "distinct_nontrivial": len(classes),
            "rule": self.rule,
            "exhaustive": bool(self.exhaustive.get(tier)),
            "spec_drift_events": drift,
            "spec_drift_samples": self._drift_samples,
            "failing_signatures_unlisted": fresh,
            "known_finding_signatures_seen": known,
            "samples": [json.dumps(events[k], separators=(",", ":"))[:1500] for k in self._sample_idx(len(events))],
            "exec_wall_s": round(t_exec, 1),
        }
        cov.update(self.extra_coverage())
        common.write_evidence(self.pid, tier, cov, time.time() - t0, nviol, self.assumptions)
        common.cleanup(self.pid)
        tp = getattr(self, "tpath", None)
        if tp is not None:
            try:
                tp.unlink()
            except OSError:
                pass
        print(f"{self.pid} {tier}: {len(events)} recorded executions validated by TLC, "
              f"{len(classes)} distinct non-trivial classes, drift={drift}, "
              f"design states={sum(d['states'] for d in design)}, violations={nviol}, {time.time() - t0:.1f}s")
        return rc

    @staticmethod
    def _sample_idx(n):
        if n == 0:
            return []
        return sorted({0, n // 3, (2 * n) // 3, n - 1})

    def replay(self, path):
        payload = json.loads(open(path).read())
        common.import_repo()
        self.prepare("quick")
        wd = common.workdir(self.pid + "-replay")
        ev = self._execute(payload["input"])
        verdicts, st = common.judge(self.module, [ev], self.pid + "-replay", consts=self.consts, jvms=1,
                                    per_item_states=self.per_item_states)
        common.cleanup(self.pid + "-replay")
        v = verdicts.get(0)
        if v and v[0] == "fail":
            sig = self.signature(ev, v)
            if (self.pid, sig) in common.load_findings():
                print(f"KNOWN-FINDING: property={self.pid} {common.load_findings()[(self.pid, sig)]} [sig={sig}]")
                return 0
            print(f"VIOLATION property={self.pid} replay={path}")
            print(f"  signature={sig} :: {v[1]} fails: {self.describe(ev, v)}")
            return 1
        print(f"{self.pid} replay: property holds on this case now ({v or ['ok', '', 'exact']})")
        return 0

"""C10 - width and width_aware_slice measure and cut by terminal columns."""
import enc
import fmtlib
from fmtlib import layouts
from purecheck import PureCheck

ALPHA = (97, 65317, 769)  # narrow, double-width, combining
ATTS2 = [fmtlib.PLAIN, fmtlib.RED]
WID = {97: 1, 98: 1, 99: 1, 32: 1, 65317: 2, 26085: 2, 128512: 2, 769: 0, 8203: 0, 3633: 0, 8205: 0, 4448: 0,
       12288: 2, 12334: 2, 7082: 1, 160: 1}
ALPHA_X = (97, 3633, 65317, 8205, 128512, 4448)   # zero-width characters that are not canonical combining marks, an emoji
# characters the usual shortcuts get wrong: spacing combining marks (combining class != 0 yet 1 / 2 columns wide), spaces
# that str.isprintable() rejects (double-width IDEOGRAPHIC SPACE, NO-BREAK SPACE)
ALPHA_Y = (97, 7082, 12334, 12288, 160, 65317)


def cols(runs):
    return sum(WID[c] for t, _ in runs for c in t)


class C10(PureCheck):
    pid = "C10"
    warm_every = 3
    rule = ("layouts of <=2 runs (quick; + sampled 3-run layouts with runs up to length 3) / <=3 runs (thorough) of length 0..2 "
            "over {a (narrow), U+FF25 (double-width), U+0301 (combining)} x {plain, red}, plus sampled layouts over {a, U+0E31, U+200D, U+1160 (zero width, not canonical combining marks), U+FF25, U+1F600}; also five long-run families (runs of 60..140 marked / double-width / plain characters, alone and next to a short run); width, width_at_offset(n) for every "
            "0<=n<=len+1, width_aware_slice for every 0<=a<=b<=width+2 (empty ranges and ranges starting/ending inside a "
            "double-width character included). distinct_nontrivial = distinct (layout, range) where the range cuts a "
            "double-width character or the layout has a zero-width character or >=2 runs")
    exhaustive = {"quick": False, "thorough": True}
    assumptions = ("width classes of the alphabet as in Width.tla; ./check setup verifies cwcwidth agrees",)

    def design_runs(self, tier):
        cfg = ("SPECIFICATION Spec\nCONSTANT MaxRuns = %d\nCONSTANT MaxLen = 2\nINVARIANT WsliceOk\nCHECK_DEADLOCK FALSE\n" % (2 if tier == "quick" else 3))
        return [dict(module="MC_Width", cfg=cfg, workers=8, timeout=3000)]

    def inputs(self, tier, rng):
        L2 = list(layouts(2, 2, alphabet=ALPHA, atts=ATTS2))
        if tier == "thorough":
            pool = list(layouts(3, 2, alphabet=ALPHA, atts=ATTS2))
        else:
            big = [l for l in layouts(3, 3, alphabet=(97, 65317, 769, 26085, 8203), atts=ATTS2, min_runs=3)] if False else []
            pool = L2
            runs3 = [[list(t), list(a)] for t in fmtlib.texts_upto(ALPHA, 3) for a in ATTS2]
            for _ in range(300):
                pool.append([rng.choice(runs3) for _ in range(3)])
        # other width classes: Thai vowel sign / ZWJ / Hangul filler (zero width, combining class 0), an emoji
        runsx = [[list(t), list(a)] for t in fmtlib.texts_upto(ALPHA_X, 3, 1) for a in ATTS2]
        runsy = [[list(t), list(a)] for t in fmtlib.texts_upto(ALPHA_Y, 3, 1) for a in ATTS2]
        for _ in range(200 if tier == "quick" else 3000):
            pool.append([rng.choice(runsy) for _ in range(rng.choice([1, 2, 2, 3]))])
        for _ in range(250 if tier == "quick" else 4000):
            pool.append([rng.choice(runsx) for _ in range(rng.choice([1, 2, 2, 3]))])
        # long runs (60..140 characters: marked letters, double-width, plain) next to short ones: ranges around the start,
        # around the run boundary and at the end, every start column of the first stretch
        for unit, reps in (([97, 769], 35), ([65317, 97], 40), ([97, 769, 65317], 30), ([97], 70), ([97, 769], 64)):
            long_run = [unit * reps, list(ATTS2[1])]
            for f in ([long_run], [[[97], list(ATTS2[0])], long_run], [long_run, [[65317, 97], list(ATTS2[0])]]):
                w = cols(f)
                yield {"op": "width", "f": f}
                for a in list(range(0, 9)) + [w // 2, w // 2 + 1, w - 3, w - 1, w, w + 1]:
                    for b in (a, a + 1, a + 2, a + 5, w, w + 2):
                        if 0 <= a <= b <= w + 2:
                            yield {"op": "wslice", "f": f, "a": a, "b": b}
                for off in (0, 1, 2, 63, 64, 65, fmtlib.vlen(f)):
                    yield {"op": "width_at", "f": f, "off": off}
        for f in pool:
            w = cols(f)
            n = fmtlib.vlen(f)
            yield {"op": "width", "f": f}
            for off in range(0, n + 2):
                yield {"op": "width_at", "f": f, "off": off}
                # the same object measured at an offset first, then asked for its width / a column slice
                yield {"op": "width", "f": f, "pre_off": off}
            if w:
                yield {"op": "wslice", "f": f, "a": 0, "b": w, "pre_off": max(0, n - 1)}
                yield {"op": "wslice", "f": f, "a": max(0, w - 2), "b": w, "pre_off": n // 2}
            for a in range(0, w + 3):
                for b in range(a, w + 3):
                    yield {"op": "wslice", "f": f, "a": a, "b": b}
                    if b == a + 1 and a < w:
                        # one existing column can also be asked for with a plain int, counted from either end
                        yield {"op": "wslice", "f": f, "a": a, "b": b, "int": 1}
                        yield {"op": "wslice", "f": f, "a": a, "b": b, "int": 2}
                    if (a + b) % 5 == 0:
                        # and a range with its bounds omitted / counted from the end
                        yield {"op": "wslice", "f": f, "a": a, "b": b, "int": 3}

    def execute(self, inp):
        ev = dict(inp)
        f = enc.build_fmtstr(inp["f"])
        op = inp["op"]
        if "pre_off" in inp:
            try:
                f.width_at_offset(inp["pre_off"])
            except Exception:  # noqa
                pass
        if op == "width":
            try:
                ev["n"] = f.width
                ev["k"] = "ok"
            except Exception as e:  # noqa
                ev["n"], ev["k"], ev["t"] = 0, "exc", enc.exc_name(e)
        elif op == "width_at":
            try:
                ev["n"] = f.width_at_offset(inp["off"])
                ev["k"] = "ok"
            except Exception as e:  # noqa
                ev["n"], ev["k"], ev["t"] = 0, "exc", enc.exc_name(e)
        else:
            w = cols(inp["f"])
            a, b = inp["a"], inp["b"]
            if inp.get("int") == 1:
                idx = a
            elif inp.get("int") == 2:
                idx = a - w
            elif inp.get("int") == 3:
                idx = slice(None if a == 0 else (a - w if 0 < a < w else a), None if b == w else (b - w if 0 < b < w else b))
            else:
                idx = slice(a, b)
            ev["res"] = fmtlib.enc_res(lambda: enc.call(f.width_aware_slice, idx))
        return ev

    def _cuts(self, ev):
        pos = 0
        for t, _ in ev["f"]:
            for c in t:
                if WID[c] == 2 and (pos < ev["a"] < pos + 2 or pos < ev["b"] < pos + 2):
                    return True
                pos += WID[c]
        return False

    def classify(self, ev):
        f = ev["f"]
        zero = any(WID[c] == 0 for t, _ in f for c in t)
        cut = ev["op"] == "wslice" and self._cuts(ev)
        if cut or zero or len(f) >= 2:
            return (ev["op"], str(f), ev.get("a"), ev.get("b"), ev.get("off"))
        return None

    def case_class(self, ev, v):
        f = ev["f"]
        zero_only_run = any(t and all(WID[c] == 0 for c in t) for t, _ in f)
        tag = "zero-width-only-run" if zero_only_run else "other"
        if ev["op"] == "wslice":
            return f"wslice:{tag}:{'empty-range' if ev['a'] == ev['b'] else 'range'}:{'cuts-wide' if self._cuts(ev) else 'nocut'}"
        return f"{ev['op']}:{tag}"

    def describe(self, ev, v):
        return str({k: ev[k] for k in ev})


CHECK = C10()

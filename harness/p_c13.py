"""C13 - FmtStr values are immutable and their memoised views never go stale."""
import json

import common
import operator

import enc
from tracecheck import TraceCheck, parse_behaviours

PLAIN = [0] * 8
RED = [2, 0, 0, 0, 0, 0, 0, 0]
ONBLUE = [0, 5, 2, 0, 0, 0, 0, 0]
SEED = [[[[97, 98], RED]], [[[99], PLAIN], [[32, 100], ONBLUE]], [[[], RED], [[101, 10, 102], PLAIN]],
        [[[65317, 103], ONBLUE], [[104, 769], PLAIN]]]
# the same pool shapes spelled with the characters of the escape sequences that will wrap them ("31" in red, "44" on blue)
ALTSEED = [[[[51, 49], RED]], [[[52], PLAIN], [[52, 52], ONBLUE]], [[[], RED], [[51, 10, 57], PLAIN]], SEED[3]]
STRPOOL = ["", "x", ", ", "\uff25"]
ATTMAPS = [{"fg": 32}, {"bg": 41, "bold": True}, {"bold": False, "underline": True}]
MODELLED = {"add", "addstr", "raddstr", "mul", "slice", "splice", "insert", "append", "join", "withatts", "removeatts",
            "copy", "rewrap"}
MAXPOOL = 12


def views(f):
    """memoised views read through the object"""
    def guarded(fn, bad):
        # a view that raises is an observation too (it never equals a freshly computed one)
        try:
            return fn()
        except Exception as e:  # noqa
            return bad(e)
    w = guarded(lambda: f.width, lambda e: -1)
    if not isinstance(w, int) or w < -1:
        w = -2 if isinstance(w, int) else -3
    return {"s": guarded(lambda: enc.enc_text(f.s), lambda e: enc.enc_text("<raised %s>" % enc.exc_name(e))),
            "n": guarded(lambda: len(f), lambda e: -1), "w": w,
            "str": guarded(lambda: enc.enc_text(str(f)), lambda e: enc.enc_text("<raised %s>" % enc.exc_name(e))),
            "repr": guarded(lambda: enc.enc_text(repr(f)), lambda e: enc.enc_text("<raised %s>" % enc.exc_name(e)))}


def fresh_views(f):
    from curtsies.formatstring import FmtStr, Chunk
    g = FmtStr(*(Chunk(str(c.s), dict(c.atts)) for c in f.chunks))
    return views(g)


class C13(TraceCheck):
    pid = "C13"
    module = "PoolTrace"
    rule = ("straight-line programs over a pool seeded with 3 FmtStr values (multi-run, empty run, newline), operations: "
            "+ and += , str+, +str, * (counts -3..2), slicing, splice, insert, append, join, copy_with_new_atts, new_with_atts_removed, copy, fmtstr() "
            "re-wrapping, split, splitlines, ljust/rjust, copy_with_new_str, width_aware_slice, width_aware_splitlines, "
            "delegated upper/strip, linesplit, == / dict lookup between a value and its raw-escape twin, iteration with every cell kept; observations (str, len, s, width, repr through the object vs rebuilt from fresh "
            "runs) and in-place edit attempts interleaved at random positions. Programs come from TLC (Pool.tla: exhaustive "
            "to depth 2 in BFS, simulation to depth 12). After every step the run lists of all live values are recorded "
            "without touching memos. distinct_nontrivial = distinct (operation, operand alias pattern, caches warm?) steps")
    exhaustive = {"quick": False, "thorough": False}

    def design_runs(self, tier):
        cfg = ("SPECIFICATION Spec\nCONSTANT MaxSteps = %d\nCONSTANT MaxPool = 12\nCONSTANT Emit = FALSE\nPROPERTY AppendOnly\n"
               "CHECK_DEADLOCK FALSE\n" % 2)       # depth 3 has ~3.5e8 programs: not feasible, the simulation covers depth 12
        return [dict(module="Pool", cfg=cfg, workers=8, timeout=1500)]

    def tlc_histories(self, tier, wd):
        hists = []
        stats = {"states": 0, "transitions": 0}
        # breadth-first: every program of depth 2 (quick) over the exhaustive action set
        cfg = ("SPECIFICATION Spec\nCONSTANT MaxSteps = %d\nCONSTANT MaxPool = 12\nCONSTANT Emit = TRUE\nINVARIANT EmitProgram\n"
               "CHECK_DEADLOCK FALSE\n" % (1 if tier == "quick" else 2))
        r = common.run_tlc("Pool", cfg, wd / "bfs", workers=1, timeout=900)
        hists += parse_behaviours(r["out"])
        stats["states"] += r["distinct"]
        stats["transitions"] += r["generated"]
        num = 1500 if tier == "quick" else 15000
        cfg = ("SPECIFICATION GenSpec\nCONSTANT MaxSteps = 12\nCONSTANT MaxPool = 12\nCONSTANT Emit = TRUE\nINVARIANT EmitProgram\n"
               "CHECK_DEADLOCK FALSE\n")
        r = common.run_tlc("Pool", cfg, wd / "sim", workers=1, timeout=1500, simulate=f"num={num}", depth=13,
                           extra=["-seed", str(common.seed() + 3)])
        hists += parse_behaviours(r["out"])
        stats["states"] += r["generated"]
        stats["transitions"] += r["generated"]
        cap = 1500 if tier == "quick" else 40000      # the exhaustive depth-2 set has ~500k programs
        bfs = [h for h in hists if len(h) <= 2]
        if len(bfs) > cap:
            rng = common.rng("C13-sub")
            hists = rng.sample(bfs, cap) + [h for h in hists if len(h) > 2]
        return hists, stats

    def histories(self, tier, rng):
        # hand-written programs next to the generated ones: a value with a double-width character that nothing has
        # looked at yet is wrapped (with padding) / sliced by columns / measured at an offset, and only then observed
        def E(op, a, b=1, n=0, m=0):
            return {"op": op, "a": a, "b": b, "n": n, "m": m}
        progs = []
        for mk in (E("raddstr", 4, 1, 2), E("addstr", 1, 1, 4), E("add", 1, 4), E("join", 4, 1, 2)):
            for use in (E("wsplit", 5, 5, 0), E("wsplit", 5, 5, 1), E("wslice", 5, 5, 1, 3), E("widthat", 5, 5, 2), E("linesplit", 5, 5, 1),
                        E("ljust", 5), E("split", 5), E("upper", 5)):
                progs.append([mk, use, E("observe", 5)])
                progs.append([mk, E("copy", 5), use, E("observe", 5), E("observe", 6)])
        for a in (1, 2, 3, 4):
            for n in (0, 1, 2):
                progs.append([E("eqraw", a, a, n), E("observe", a)])
            progs.append([E("iterate", a), E("observe", a)])
            progs.append([E("add", a, 2), E("iterate", 5), E("observe", 5)])
        # a value whose first run begins with a zero-width character (the accent cut off seed 4) added to values whose last
        # run is formatted differently - also to values that share that last run with others (a copy, a whole-run slice,
        # an earlier sum)
        cut = E("slice", 4, 1, 3, 4)
        for a in (1, 2, 4):
            progs.append([cut, E("add", a, 5), E("observe", a), E("observe", 6)])
            progs.append([cut, E("copy", a), E("add", a, 5), E("observe", 6), E("observe", a), E("observe", 7)])
            progs.append([cut, E("add", a, 1), E("add", 6, 5), E("observe", a), E("observe", 6), E("observe", 7)])
            progs.append([cut, E("withatts", 5, 1, 1), E("add", a, 6), E("observe", a), E("mul", a, 1, 2), E("add", 8, 6), E("observe", 8)])
        return progs

    def run_history(self, hist):
        from curtsies.formatstring import fmtstr, linesplit
        from curtsies.formatstring import FmtStr, Chunk
        import zlib
        SEED = ALTSEED if zlib.crc32(json.dumps(hist, sort_keys=True).encode()) % 3 == 1 else globals()["SEED"]
        for r in SEED:
            # other objects - the seeds' runs with styles as ints 0 / 1 instead of False / True - were rendered before
            for t, a in r:
                d = {k: (int(v) if isinstance(v, bool) else v) for k, v in enc.dec_atts(a).items()}
                str(FmtStr(Chunk(enc.dec_text(t), d)))
        pool = [enc.build_fmtstr(r) for r in SEED]
        extras = []
        ev = []
        for e in hist:
            op, a, b, n, m = e["op"], e["a"] - 1, e["b"] - 1, e["n"], e["m"]
            rec = dict(e)
            rec["exc"] = ""
            rec["res"] = []
            fa, fb = pool[a], pool[b]
            res = None
            side = []
            interleaved = False
            rec["warmed"] = int((len(ev) + a) % 2 == 0)
            if rec["warmed"]:
                # fill the operands' caches before the operation on every other step
                for x in (fa, fb):
                    for look in (str, len, lambda y: y.s, lambda y: y.width):
                        try:
                            look(x)
                        except Exception:  # noqa - a view that raises is reported where the value was made
                            pass
            try:
                if op == "add":
                    # every other time spelled as an augmented assignment on another name for the same value (x = fa; x += fb)
                    res = operator.iadd(fa, fb) if (n + m + len(ev)) % 2 else fa + fb
                elif op == "addstr":
                    res = operator.iadd(fa, STRPOOL[n - 1]) if (n + len(ev)) % 2 else fa + STRPOOL[n - 1]
                elif op == "raddstr":
                    res = STRPOOL[n - 1] + fa
                elif op == "mul":
                    res = fa * n
                elif op == "slice":
                    res = fa[n:m]
                elif op == "splice":
                    res = fa.splice(fb, n, m)
                elif op == "insert":
                    res = fa.splice(STRPOOL[m - 1], n)
                elif op == "append":
                    res = fa.append(fb)
                    if m % 2:
                        # the same with plain strs that carry SGR sequences (parsed by append / splice): further new values
                        side = [fa.append("\x1b[31mred\x1b[39m"), fa.splice("\x1b[1mq\x1b[0m", min(n, len(fa))),
                                fa.append("\x9b44mz")]
                elif op == "join":
                    res = fa.join([fb, STRPOOL[n - 1], fb])
                elif op == "withatts":
                    res = fa.copy_with_new_atts(**ATTMAPS[n - 1])
                elif op == "removeatts":
                    res = fa.new_with_atts_removed("fg", "bold")
                elif op == "copy":
                    res = fa.copy()
                elif op == "rewrap":
                    res = fmtstr(fa)
                elif op == "split":
                    side = fa.split(" ")
                elif op == "splitlines":
                    side = fa.splitlines(bool(n % 2))
                elif op == "ljust":
                    # wider than, as wide as and narrower than the text (nothing to pad: the library may hand the operand back)
                    w = [len(fa) + 2, len(fa), len(fa) - 1, 1, 0, len(fa) + 5][(n + m) % 6]
                    side = [fa.ljust(w) if n % 2 else fa.ljust(w, " ")]
                elif op == "rjust":
                    w = [len(fa) + 1, len(fa) - 1, 0, len(fa)][(n + m) % 4]
                    side = [fa.rjust(w, "*") if m % 2 else fa.rjust(w)]
                elif op == "newstr":
                    side = [fa.copy_with_new_str("zz")]
                elif op == "wslice":
                    side = [fa.width_aware_slice(slice(min(n, m), max(n, m)))]
                elif op == "wsplit":
                    if m % 2:
                        # the lazy line iterator of fa is advanced in turn with one over fb (which may share runs with
                        # fa, or be fa): what it yields must be what an undisturbed split of the same runs yields
                        it1, it2 = iter(fa.width_aware_splitlines(2 + n % 3)), iter(fb.width_aware_splitlines(2 + m % 3))
                        d1 = d2 = False
                        while not (d1 and d2):
                            if not d1:
                                try:
                                    side.append(next(it1))
                                except StopIteration:
                                    d1 = True
                            if not d2:
                                try:
                                    next(it2)
                                except StopIteration:
                                    d2 = True
                        calm = list(FmtStr(*(Chunk(str(c.s), dict(c.atts)) for c in fa.chunks)).width_aware_splitlines(2 + n % 3))
                        rec["robs"] = [views(x) for x in side] + [{"n": len(side)}]
                        rec["rfresh"] = [views(x) for x in calm] + [{"n": len(calm)}]
                        interleaved = True
                    else:
                        side = list(fa.width_aware_splitlines(2 + n % 3))
                elif op == "iterate":
                    # the value walked through the iteration protocol, every cell kept (list(f), unpacking, zip): each kept
                    # cell must still be the character it was when it was handed out
                    cells = list(fa)
                    side = cells[:4] + cells[-1:] if len(cells) > 5 else cells      # (a few stay alive as later side results)
                    interleaved = True
                    calm = FmtStr(*(Chunk(str(c.s), dict(c.atts)) for c in fa.chunks))
                    rec["robs"] = [views(x) for x in cells] + [{"n": len(cells)}]
                    rec["rfresh"] = [views(calm[j]) for j in range(len(calm))] + [{"n": len(calm)}]
                    it = iter(fa)
                    first = next(it, None)
                    second = next(it, None)
                    if first is not None and second is not None:
                        rec["robs"] += [views(first)]
                        rec["rfresh"] += [views(calm[0])]
                elif op == "eqraw":
                    # two values with the same terminal string but different text: one keeps a plain str operand that
                    # carries an escape sequence verbatim, the other is really formatted; one of them (or none, or both)
                    # is looked at, then they are compared and used as dictionary keys
                    raw = fa + "\x1b[31mq\x1b[39m"
                    twin = fa + fmtstr("q", "red")
                    for j, x in enumerate((raw, twin)):
                        if (n + j) % 3 == 0:
                            x.s, len(x)
                            try:
                                x.width
                            except Exception:  # noqa
                                pass
                    raw == twin, twin == raw, {raw: 1}.get(twin), twin in {raw}
                    side = [raw, twin]
                elif op == "upper":
                    side = [fa.upper()]
                elif op == "strip":
                    side = [fa.strip()]
                elif op == "linesplit":
                    side = linesplit(fa, 2 + n % 4)
                elif op == "widthat":
                    fa.width_at_offset(min(n, len(fa)))
                    rec["robs"] = [views(fa)]
                    rec["rfresh"] = [fresh_views(fa)]
                elif op == "setitem":
                    side = [fa.setitem(min(n, max(0, len(fa) - 1)), STRPOOL[m - 1] if 1 <= m <= 4 else "z")]
                elif op == "observe":
                    rec["obs"] = views(fa)
                    rec["fresh"] = fresh_views(fa)
                    rec["toks"] = enc.lex(str(fa))
                elif op == "mutate":
                    rec["raised"] = 0
                    rec["how"] = n
                    try:
                        if n == 1:
                            fa[0] = "x"
                        elif m % 3 == 0 and fa.chunks and any(len(c.s) for c in fa.chunks):
                            # the caller edits the mapping shared_atts handed out ("same style without the background");
                            # either that raises or it is the caller's own copy - the value itself stays as it was
                            try:
                                d = fa.shared_atts
                                d.pop("bg", None), d.pop("fg", None), d.pop("bold", None)
                                d.setdefault("underline", True)
                                d.clear()
                            except Exception:  # noqa
                                pass
                            rec["raised"] = 1
                        elif n == 2:
                            if fa.chunks:
                                fa.chunks[0].atts["fg"] = 31
                            else:
                                rec["raised"] = 1
                        else:
                            if fa.chunks:
                                fa.chunks[0].atts.update(bold=True)
                            else:
                                rec["raised"] = 1
                    except Exception:  # noqa
                        rec["raised"] = 1
            except Exception as x:  # noqa
                rec["exc"] = enc.exc_name(x)
            news = ([res] if res is not None else []) + list(side)
            for x in news:
                # somewhere else in the process other objects with the same runs, styles given as ints 0 / 1, get rendered
                for c in x.chunks:
                    d = {k: (int(v) if isinstance(v, bool) else v) for k, v in c.atts.items()}
                    if d != dict(c.atts) or any(isinstance(v, bool) for v in c.atts.values()):
                        str(FmtStr(Chunk(str(c.s), d)))
            # every third time the new results are NOT looked at when they are made (their memos stay empty until a later
            # step uses or observes them)
            if op != "widthat" and not interleaved and (len(ev) + n) % 3 != 2:
                rec["robs"] = [views(x) for x in news]
                rec["rfresh"] = [fresh_views(x) for x in news]
            elif op != "widthat" and not interleaved:
                rec["robs"], rec["rfresh"] = [], []
            if res is not None:
                rec["res"] = enc.enc_fmtstr(res)
                if op in MODELLED and len(pool) < MAXPOOL:
                    pool.append(res)
                else:
                    extras.append(res)
            extras.extend(side[:25])        # (never more than the window of side results the trace keeps)
            if len(extras) > 30:
                extras = extras[-30:]
                rec["extras_reset"] = 1
            rec["pool"] = [enc.enc_fmtstr(f) for f in pool]
            rec["extras"] = [enc.enc_fmtstr(f) for f in extras]
            ev.append(rec)
            if res is None and op in MODELLED and len(pool) < MAXPOOL:
                break       # the specification's pool has a value here that the run does not: the history ends
        return {"seed": SEED, "ev": ev}

    def classes(self, tr):
        res = []
        warm = set()
        for e in tr["ev"]:
            if e["op"] == "observe":
                warm.add(e["a"])
            res.append((e["op"], e["a"] == e["b"], e["a"] in warm, e["b"] in warm, e["a"] > 3))
        return res

    def case_class(self, tr, v):
        l = v[2]
        e = tr["ev"][l - 1] if 0 < l <= len(tr["ev"]) else {}
        return e.get("op", "?")

    def describe(self, tr, v):
        l = v[2]
        evs = [{k: x[k] for k in x if k not in ("pool", "extras")} for x in tr["ev"][:l]]
        return json.dumps(evs)[:1200]


CHECK = C13()

"""C07 - CursorAwareWindow keeps history intact and accounts for every scroll."""
import json

import common
import enc
import winlib
from tracecheck import TraceCheck, parse_behaviours
from p_c02 import frow, srow, PLAIN, RED, ONBLUE, UNDER, INVERT


def lines_for(w):
    # rows are at most as wide as the terminal (the statement quantifies over heights only)
    from p_c02 import wide_rows
    return [r for r in _lines_for(w) if sum(len(t) for t, _ in r["v"]) <= w] + wide_rows(w)


def _lines_for(w):
    a = [97]
    return [frow([]), frow([[a, PLAIN]]), frow([[a, RED]]), frow([[[98] * w, RED]]), frow([[[99] * w, PLAIN]]),
            frow([[a, PLAIN], [[100] * (w - 1), ONBLUE]]) if w > 1 else frow([[a, ONBLUE]]), srow("e"), frow([[[], RED]]),
            frow([[[102] * max(1, w - 1), PLAIN]]),
            frow([[a, PLAIN], [[32] * max(1, w - 1), UNDER]]), frow([[[32] * w, ONBLUE]]), frow([[[32] * max(1, w - 1), INVERT]]),
            srow(" " * max(1, w - 1))]


class C07(TraceCheck):
    pid = "C07"
    # blessed (third party) switches every terminal capability off when NO_COLOR is set, on the pinned tree as well:
    # not a variable whose effect says anything about a change to curtsies
    sweep_exclude = ("NO_COLOR",)
    module = "CursorTrace"
    rule = ("histories of a real CursorAwareWindow (pty in_stream, capture out_stream): k in 0..H+2 pre-existing lines (cursor "
            "ends on any row), enter (cursor report answered by the harness and cross-checked by the reference terminal), "
            "(in part of the histories the cursor is then moved back up into that output, so rows at and below the window's first row hold old text), 1..6 renders with arrays of height 0..H+3 from 9 representative rows per width (empty, short, full-width, two "
            "runs, plain str), cursor on any array cell, keep_last_line/hide_cursor on and off, exit; terminals 2x2..5x6; "
            "sources: TLC-generated behaviours (MC_CursorWin GenSpec) + bounded enumeration of (k, array, array) on 2x2/3x2 + "
            "identical consecutive frames + seeded random histories. distinct_nontrivial = distinct (top row, array height, terminal height, scrolled?, "
            "cache state) render transitions")
    assumptions = ("Term.tla is the reference terminal incl. scrollback; blessed emits xterm-256color sequences",
                   "array rows are at most as wide as the terminal (the statement quantifies over heights only)")
    exhaustive = {"quick": False, "thorough": False}

    def design_runs(self, tier):
        cfg = ("SPECIFICATION Spec\nCONSTANT Sizes <- %s\nCONSTANT MaxPre = 4\nCONSTANT HistDepth = %d\nCONSTANT Emit = FALSE\n"
               "VIEW view\nINVARIANT RenderOk\nINVARIANT CacheTruth\nCHECK_DEADLOCK FALSE\n" % (("SizesQ", 5) if tier == "quick" else ("SizesA", 5)))
        return [dict(module="MC_CursorWin", cfg=cfg, workers=8, timeout=3000)]

    def tlc_histories(self, tier, wd):
        num = 300 if tier == "quick" else 3000
        depth = 7
        cfg = ("SPECIFICATION GenSpec\nCONSTANT Sizes <- SizesB\nCONSTANT MaxPre = 6\nCONSTANT HistDepth = %d\nCONSTANT Emit = TRUE\n"
               "INVARIANT EmitBehaviour\nINVARIANT RenderOk\nCHECK_DEADLOCK FALSE\n" % depth)
        r = common.run_tlc("MC_CursorWin", cfg, wd / "gen", workers=1, timeout=600,
                           simulate=f"num={num}", depth=depth + 1, extra=["-seed", str(common.seed() + 7)])
        if not r["ok"]:
            raise common.Machinery("MC_CursorWin generator violated RenderOk:\n" + r["out"][-2000:])
        hists = []
        for beh in parse_behaviours(r["out"]):
            if not beh or beh[0]["k"] != "init":
                continue
            h = {"h": beh[0]["h"], "w": beh[0]["w"], "hide": beh[0]["hide"], "keep": 0, "pre": 0, "steps": []}
            for e in beh[1:]:
                if e["k"] == "setup":
                    h["pre"] = e["n"]
                elif e["k"] == "render":
                    h["steps"].append({"arr": [frow([[list(r[0]), list(r[1])] for r in row]) for row in e["arr"]],
                                       "cp": list(e["cp"]), "kind": "list"})
            hists.append(h)
        return hists, {"states": r["generated"], "transitions": r["generated"]}

    def histories(self, tier, rng):
        import itertools
        n = 0
        for (h, w) in [(2, 2), (3, 2)]:
            small = [lines_for(w)[k] for k in (0, 1, 3)]
            arrays = [list(c) for k in range(0, h + 2) for c in itertools.product(small, repeat=k)]
            arrays = rng.sample(arrays, min(len(arrays), 14 if tier == "quick" else 40))
            for pre in range(0, h + 2):
                for A in arrays:
                    for B in arrays:
                        n += 1
                        yield {"h": h, "w": w, "hide": n % 2, "keep": (n // 2) % 2, "pre": pre, "up": (n // 3) % 3 if n % 4 == 0 else 0,
                               "steps": [{"arr": A, "cp": [max(0, len(A) - 1), 0], "kind": "list"},
                                         {"arr": B, "cp": [0, 0], "kind": "fsarray" if n % 5 == 0 else "list"}]}
        # the same frame rendered two or three times in a row: fitting, exactly full, taller than the screen
        for (h, w) in [(2, 3), (3, 4), (4, 6)]:
            L = lines_for(w)
            for height in range(0, h + 4):
                for pre in (0, 1, h + 1):
                    for reps in (2, 3):
                        n += 1
                        arr = [L[(n + j * 3) % len(L)] for j in range(height)]
                        cp = [max(0, height - 1 - (n % 2)), 0]
                        yield {"h": h, "w": w, "hide": n % 2, "keep": (n // 2) % 2, "pre": pre,
                               "steps": [{"arr": arr, "cp": cp, "kind": "list"} for _ in range(reps)]}
        # a row changing between double-width / combining text and narrow text with as many (or more) characters
        for (h, w) in [(3, 6), (2, 5)]:
            W2, ACC = frow([[[26085, 65317], RED]]), frow([[[101, 769, 120], PLAIN]])
            AB, ABC, A = frow([[[97, 98], RED]]), frow([[[97, 98, 99], PLAIN]]), frow([[[97], PLAIN]])
            for first, second in ((W2, AB), (AB, W2), (W2, ABC), (ABC, ACC), (ACC, ABC), (W2, ACC), (ACC, A), (W2, A)):
                for pre in (0, 1):
                    n += 1
                    yield {"h": h, "w": w, "hide": n % 2, "keep": 0, "pre": pre,
                           "steps": [{"arr": [A, first], "cp": [1, 0], "kind": "list"}, {"arr": [A, second], "cp": [1, 1], "kind": "list"},
                                     {"arr": [first, second], "cp": [0, 0], "kind": "list"}]}
        # rows holding characters that take one cell but are no letters (NO-BREAK SPACE, EM SPACE, a private-use glyph,
        # SOFT HYPHEN), and rows of two adjacent single-attribute chunks in every order
        odd = [frow([[[49, 48, 160, 107, 109], PLAIN]]), frow([[[109, 57520, 126], RED], [[8195, 120], PLAIN]]),
               frow([[[97, 173, 98], [0, 5, 2, 0, 0, 0, 0, 0]]]), frow([[[160, 160], [0, 2, 0, 0, 0, 0, 0, 0]]])]
        one = []
        for i in range(8):
            a = [0] * 8
            a[i] = 3 if i < 2 else 2
            one.append(a)
        pairs = [frow([[[111, 107], list(x)], [[110, 111], list(y)]]) for x in one for y in one if x != y]
        for pre in (0, 2):
            for hide in (0, 1):
                n += 1
                yield {"h": 5, "w": 7, "hide": hide, "keep": n % 2, "pre": pre,
                       "steps": [{"arr": odd, "cp": [0, 0], "kind": "list"}, {"arr": odd[::-1] + odd[:2], "cp": [2, 1], "kind": "list"}]}
        for k in range(0, len(pairs), 4):
            n += 1
            yield {"h": 4, "w": 6, "hide": n % 2, "keep": 0, "pre": n % 3,
                   "steps": [{"arr": pairs[k:k + 3], "cp": [0, 0], "kind": "list"}, {"arr": pairs[k + 1:k + 4], "cp": [1, 1], "kind": "list"}]}
        # rows that end in styled blanks followed by unstyled blanks / an empty unstyled chunk (an application-drawn block
        # cursor followed by padding, a coloured label padded out): drawn in place, redrawn, and arriving through scrolling
        sb = [frow([[[62, 120], PLAIN], [[32], [0, 0, 0, 0, 0, 0, 0, 2]], [[32, 32], PLAIN]]),
              frow([[[32, 111, 107, 32], [0, 3, 0, 0, 0, 0, 0, 0]], [[32, 32], PLAIN]]),
              frow([[[97], PLAIN], [[32, 32], [0, 0, 0, 0, 0, 2, 0, 0]], [[], PLAIN]]),
              frow([[[97, 98], RED], [[32], [0, 5, 0, 0, 0, 0, 0, 0]], [[32], PLAIN]]),
              frow([[[32, 32], [0, 0, 0, 0, 0, 0, 0, 2]], [[32], PLAIN]])]
        for pre in (0, 2):
            for hide in (0, 1):
                n += 1
                yield {"h": 4, "w": 7, "hide": hide, "keep": n % 2, "pre": pre,
                       "steps": [{"arr": sb[:3], "cp": [0, 0], "kind": "list"}, {"arr": sb[1:], "cp": [1, 1], "kind": "list"},
                                 {"arr": sb + sb[:2], "cp": [6, 2], "kind": "list"}]}
        # REPL-like growth: every render shows the previous array plus a few more lines (so earlier rows are row-cache
        # hits), the cursor stays in the same column on the last row; the window starts below existing output
        base_pool = lines_for(6)
        for h in (3, 4, 6):
            for pre in range(0, h + 1):
                for start in (1, 2, h - 1):
                    for grow in ((1, 1), (1, 2), (2, 1, 3)):
                        for col in (0, 2):
                            n += 1
                            lines = [base_pool[(n + j * 5) % len(base_pool)] for j in range(start + sum(grow))]
                            steps = []
                            k = start
                            for g in (0,) + grow:
                                k += g
                                steps.append({"arr": lines[:k], "cp": [k - 1, col], "kind": "list"})
                            yield {"h": h, "w": 6, "hide": n % 2, "keep": (n // 2) % 2, "pre": pre, "steps": steps}
        for k in range(900 if tier == "quick" else 12000):
            h, w = rng.randrange(1, 8), rng.choice([1, 2, 3, 4, 5, 6, 7, 8, 9, 10, 12])
            L = lines_for(w)
            steps = []
            for _ in range(rng.randrange(1, 7)):
                arr = [rng.choice(L) for _ in range(rng.randrange(0, h + 4))]
                if arr:
                    r = rng.randrange(len(arr))
                    ln = sum(len(t) for t, _ in arr[r]["v"])
                    cp = [r, rng.randrange(max(1, min(ln + 1, w)))]
                else:
                    cp = [0, 0]
                steps.append({"arr": arr, "cp": cp, "kind": "fsarray" if rng.random() < 0.25 else "list"})
                if rng.random() < 0.25:      # the very same frame again (same array, same cursor)
                    steps.append(dict(steps[-1]))
            yield {"h": h, "w": w, "hide": k % 2, "keep": (k // 2) % 2, "pre": rng.randrange(0, h + 3),
                   "up": rng.choice([0, 0, 1, 2, h]), "steps": steps}

    def run_history(self, hist):
        # in every third history the rows handed to the window are restyled versions of values rendered before
        import zlib
        crc = zlib.crc32(json.dumps(hist, sort_keys=True, default=str).encode())
        derive = crc % 3 == 0
        same = (crc // 3) % 3 == 0          # every third history: one frame object, edited in place between the renders
        cplist = (crc // 9) % 3 == 0        # every third history: cursor_pos handed over as a list, list frames as tuples
        from curtsies.window import CursorAwareWindow
        h, w = hist["h"], hist["w"]
        out = winlib.QueryStream(h, w)
        try:
            ev = []
            pre = hist["pre"]
            row = min(pre, h - 1)
            up = min(hist.get("up", 0), row)       # the cursor was moved back up into the existing output
            ev.append({"k": "setup", "toks": enc.lex("p\r\n" * pre + ("\x1b[%dA" % up if up else ""))})
            out.pos = (row - up, 0)
            win = CursorAwareWindow(out_stream=out, in_stream=out.in_stream, keep_last_line=bool(hist.get("keep")),
                                    hide_cursor=bool(hist["hide"]))
            win.__enter__()
            ev.append({"k": "enter", "toks": enc.lex(out.take()), "reply": out.replies[-1] if out.replies else [0, 0],
                       "top": win.top_usable_row})
            last_obj = None
            for st in hist["steps"]:
                arr = winlib.build_array(st["arr"], "tuple" if cplist and not same and st.get("kind", "list") == "list" else st.get("kind", "list"), derive=derive)
                if same and last_obj is not None:
                    # the application keeps one frame object and edits it in place between renders
                    from curtsies.formatstringarray import FSArray
                    if isinstance(last_obj, list) and isinstance(arr, list):
                        last_obj[:] = arr
                        arr = last_obj
                    elif isinstance(last_obj, FSArray) and isinstance(arr, FSArray) and last_obj.height == arr.height and last_obj.width == arr.width:
                        for i in range(arr.height):
                            last_obj[i] = arr.rows[i]
                        arr = last_obj
                last_obj = arr
                rec = {"k": "render", "arr": [enc.enc_value(r) for r in arr], "cp": st["cp"], "exc": "", "ret": 0}
                try:
                    rec["ret"] = win.render_to_terminal(arr, tuple(st["cp"]) if not cplist else list(st["cp"]))
                except Exception as e:  # noqa
                    rec["exc"] = enc.exc_name(e)
                    rec["ret"] = -1
                rec["toks"] = enc.lex(out.take())
                rec["top"] = win.top_usable_row
                ev.append(rec)
            win.__exit__(None, None, None)
            ev.append({"k": "exit", "toks": enc.lex(out.take())})
            return {"h": h, "w": w, "hide": hist["hide"], "keep": hist.get("keep", 0), "ev": ev}
        finally:
            out.close()

    def classes(self, tr):
        res = []
        top = None
        for e in tr["ev"]:
            if e["k"] == "enter":
                top = e["top"]
            elif e["k"] == "render":
                res.append((top, len(e["arr"]), tr["h"], e["ret"] > 0, e["top"]))
                top = e["top"]
        return res

    def case_class(self, tr, v):
        l = v[2]
        e = tr["ev"][l - 1] if 0 < l <= len(tr["ev"]) else {}
        if e.get("k") != "render":
            return e.get("k", "?")
        return "render:" + ("scrolls" if e["ret"] > 0 or len(e["arr"]) > tr["h"] else "fits-or-uses-free-rows")

    def describe(self, tr, v):
        l = v[2]
        return json.dumps({"h": tr["h"], "w": tr["w"], "hide": tr["hide"], "keep": tr["keep"], "events": tr["ev"][max(0, l - 3):l]})[:1500]


CHECK = C07()

"""C05 - parsing a FmtStr's terminal string gives the same FmtStr back; grammar strings parse to what a terminal shows."""
import itertools

import enc
import fmtlib
from purecheck import PureCheck
from p_c01 import all_atts

TEXTS = ["", "a", "a\nb", "\n", "x\ty\n", "Ｅ́x", "\r\nq", "ab"]
CODES = [0, 1, 2, 3, 4, 5, 7] + list(range(30, 38)) + [39] + list(range(40, 48)) + [49]
ITEMS = ["a", "b", "\n"] + ["\x1b[%dm" % c for c in CODES] + ["\x1b[m"]


class C05(PureCheck):
    pid = "C05"
    subst_every = 6
    warm_every = 4
    rule = ("round trip: the attribute records of C01 (quick: all 5,184 without explicit False + sampled False variants; "
            "thorough: all 59,049) with texts containing newline/tab/CR/wide/combining characters, plus multi-run values, plus every C0 (without ESC) / DEL / C1 (without CSI) control character first, inside and last in a run next to escape sequences; "
            "grammar: every string of <=3 (quick) / <=4 (thorough) items over {a, b, newline} u {ESC[p m : p in the 23 "
            "supported codes} u {ESC[m}, plus sampled combined-parameter sequences (1..3 parameters, and long ones of 8..200 parameters); parsed with "
            "FmtStr.from_str and fmtstr alternately (also right after a proper prefix of the same string was parsed, every cut position); result run lists validated by TLC against the stream terminal run over "
            "the *input* tokens. distinct_nontrivial = distinct inputs with >=1 SGR token and >=1 character")
    exhaustive = {"quick": False, "thorough": True}

    def design_runs(self, tier):
        cfg = ("SPECIFICATION Spec\nCONSTANT MaxItems = %d\nINVARIANT ParseShowsWhatTerminalShows\nINVARIANT RoundTripOfColorStr\n"
               "CHECK_DEADLOCK FALSE\n" % (3 if tier == "quick" else 4))
        return [dict(module="MC_Parse", cfg=cfg, workers=12, timeout=3000)]

    def prepare(self, tier):
        # the first values rendered in the process carry half of the colours as float-valued codes (fg=31.0 is accepted:
        # membership tests compare by equality): what those rendered as must not stick to the int-valued colours
        from curtsies.formatstring import fmtstr
        for code in (31.0, 33.0, 35.0, 37.0):
            for kw in ({"fg": code}, {"bg": code + 10}):
                try:
                    str(fmtstr("x", **kw))
                except Exception:  # noqa
                    pass
        # earlier in the process the parser saw other control functions carrying the same parameter lists (cursor
        # positioning, erase, the two-byte ESC H ...): what it made of those must not affect SGR sequences
        from curtsies.formatstring import FmtStr
        import itertools as it
        for fin in "HKJAf":
            for ps in list(it.chain(([c] for c in CODES), ([1, c] for c in (31, 44, 0)), ([0, c] for c in (1, 33)))) + [[]]:
                try:
                    FmtStr.from_str("a\x1b[" + ";".join(map(str, ps)) + fin + "b")
                except Exception:  # noqa
                    pass
        for two in ("\x1bH", "\x1bM", "\x1b7"):
            try:
                FmtStr.from_str("a" + two + "b")
            except Exception:  # noqa
                pass

    def inputs(self, tier, rng):
        # round trips
        if tier == "thorough":
            for k, a in enumerate(all_atts()):
                yield {"op": "roundtrip", "runs": [[enc.enc_text(TEXTS[k % len(TEXTS)]), a]]}
            nmulti = 40000
        else:
            for k, a in enumerate(all_atts((0, 2))):
                yield {"op": "roundtrip", "runs": [[enc.enc_text(TEXTS[k % len(TEXTS)]), a]]}
            for k in range(1500):
                a = [rng.randrange(9), rng.randrange(9)] + [rng.randrange(3) for _ in range(6)]
                yield {"op": "roundtrip", "runs": [[enc.enc_text(TEXTS[k % len(TEXTS)]), a]]}
            nmulti = 2500
        for k in range(nmulti):
            runs = []
            for _ in range(rng.choice([2, 2, 3, 4])):
                a = [rng.choice([0, 0, 2, 5, 8]), rng.choice([0, 0, 1, 4])] + [rng.choice([0, 0, 0, 1, 2]) for _ in range(6)]
                runs.append([enc.enc_text(rng.choice(["", "a", "b\n", "x\ny", "\n"])), a])
            yield {"op": "roundtrip", "runs": runs}
        # one value with very many runs (thousands of escape sequences in one terminal string)
        for nruns in (400, 1200, 3000):
            runs = [[enc.enc_text("ab"[j % 2]), [1 + j % 3, 0, 2 * (j % 2), 0, 0, 0, 0, 0]] for j in range(nruns)]
            yield {"op": "roundtrip", "runs": runs}
        # every other control character (C0 without ESC, DEL, C1 without CSI) as the first, a middle and the last
        # character of a run - right after and right before the escape sequences of its own and of the neighbouring runs
        ctl = [c for c in range(0, 32) if c != 27] + [127] + [c for c in range(128, 160) if c != 155]
        for c in ctl:
            for text in ([c, 97], [97, c], [c], [c, c], [97, c, 98]):
                a = [1 + c % 8, 0, 2 * (c % 2), 0, 0, 0, 0, 0]
                yield {"op": "roundtrip", "runs": [[list(text), a]]}
                yield {"op": "roundtrip", "runs": [[[120], a], [list(text), [0] * 8], [[121], [0, 2, 0, 0, 0, 2, 0, 0]]]}
            yield {"op": "parse", "s": [97, 27, 91, 49, 59, 51, 49, 109, c, 98, 27, 91, 109, c, 99, c, 27, 91, 52, 109, 100], "via": c % 2}
        # grammar strings
        depth = 3 if tier == "quick" else 4
        k = 0
        for n in range(depth + 1):
            for combo in itertools.product(ITEMS, repeat=n):
                k += 1
                yield {"op": "parse", "s": enc.enc_text("".join(combo)), "via": k % 2}
        # a growing line: the same string parsed after each of its proper prefixes was parsed (every cut position)
        grow = ["ab\x1b[31mX\x1b[39m", "a\x1b[1;44mb\x1b[0mc", "\x1b[4mxy\x1b[mz", "q\x1b[31m\x1b[1mr\x1b[0m", "\x1b[32mok\x1b[39m \x1b[44mtail\x1b[49m"]
        for g in grow:
            for cut in range(1, len(g)):
                yield {"op": "parse", "s": enc.enc_text(g), "via": cut % 2, "pref": cut}
        for k in range(300 if tier == "quick" else 3000):
            runs = [[enc.enc_text(rng.choice(["a", "bc", "x\ny"])), [rng.choice([0, 2, 5]), rng.choice([0, 0, 4]), rng.choice([0, 2]), 0, 0, rng.choice([0, 2]), 0, 0]] for _ in range(rng.choice([1, 2]))]
            yield {"op": "roundtrip", "runs": runs, "prefcut": rng.choice([0, 0, 1, 2, 3])}
        # an escape sequence at every offset around the usual buffer sizes: one unbroken run of n characters, then a
        # run formatted differently (its opening sequence begins right behind the n-th character)
        for n in (1020, 1021, 1022, 1023, 1024, 4090, 4091, 4092, 4093, 4094, 4095, 4096, 4097, 8189, 8190, 8191, 8192):
            yield {"op": "roundtrip", "runs": [[[120] * n, [2, 0, 0, 0, 0, 0, 0, 0]], [enc.enc_text("tail"), [5, 0, 2, 0, 0, 0, 0, 0]]]}
        for n in (15, 16, 17, 18, 31, 32, 33, 64, 65, 200):       # every length around the usual parameter-count limits
            for tail in ([31], [1, 44], [0, 4]):
                ps = [CODES[(j * 7 + n) % len(CODES)] for j in range(n - len(tail))] + tail
                yield {"op": "parse", "s": enc.enc_text("a\x1b[" + ";".join(map(str, ps)) + "mxy\x1b[0mz"), "via": n % 2}
        for k in range(4000 if tier == "quick" else 60000):
            parts = []
            for _ in range(rng.randrange(1, 6)):
                if rng.random() < 0.45:
                    parts.append(rng.choice(["a", "b", "\n", "xy", "\t"]))
                else:
                    # mostly 1..3 parameters; now and then a long combined sequence (up to 40 parameters)
                    ps = [rng.choice(CODES) for _ in range(rng.randrange(1, 4) if rng.random() < 0.9 else rng.choice([8, 15, 16, 17, 18, 24, 33, 40]))]
                    parts.append("\x1b[" + ";".join(map(str, ps)) + "m")
            yield {"op": "parse", "s": enc.enc_text("".join(parts)), "via": k % 2}

    def execute(self, inp):
        from curtsies.formatstring import FmtStr, fmtstr
        ev = dict(inp)
        if inp["op"] == "roundtrip":
            f = FmtStr()
            for t, a in inp["runs"]:
                f = f + fmtstr(enc.dec_text(t), **enc.dec_atts(a))
            if enc.WARM & 256:
                f = enc.build_fmtstr(enc.enc_fmtstr(f))      # the same runs, derived from a value that was rendered before
            elif enc.WARM:
                enc.warm(f, enc.WARM)
            s = str(f)
            if inp.get("prefcut") is not None and "\x1b[" in s:
                # the call before this one parsed the same terminal string cut short inside its first escape sequence
                try:
                    FmtStr.from_str(s[:s.index("\x1b[") + 2 + inp["prefcut"]])
                except Exception:  # noqa
                    pass
            ev["f"] = enc.enc_fmtstr(f)
            ev["toks"] = enc.lex(s)
            ev["res"] = fmtlib.enc_res(lambda: FmtStr.from_str(s))
            del ev["runs"]
        else:
            s = enc.dec_text(inp["s"])
            if inp.get("pref") is not None:
                # the call before this one parsed a proper prefix of this very string (output that arrives in pieces and
                # is parsed again as it grows) - cut at any position, inside escape sequences too
                try:
                    (FmtStr.from_str if inp["via"] else fmtstr)(s[:inp["pref"]])
                except Exception:  # noqa
                    pass
            ev["toks"] = enc.lex(s)
            if inp["via"]:
                ev["res"] = fmtlib.enc_res(lambda: FmtStr.from_str(s))
            else:
                ev["res"] = fmtlib.enc_res(lambda: fmtstr(s))
        return ev

    def classify(self, ev):
        toks = ev["toks"]
        if any(t[0] == "m" for t in toks) and any(t[0] == "t" for t in toks):
            return str(toks)
        return None

    def case_class(self, ev, v):
        toks = ev["toks"]
        has_nl = any(t[0] == "t" and t[1] == 10 for t in toks)
        return f"{ev['op']}:{'newline' if has_nl else 'no-newline'}"

    def describe(self, ev, v):
        return f"{ev['op']} of {ev.get('f', '')} tokens {ev['toks']} -> {ev['res']}"


CHECK = C05()

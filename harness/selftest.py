"""./check selftest - demonstrates that the specification is bound to what was recorded:
a handful of executions recorded from the real code are accepted by TLC, and each of them is
rejected once a single recorded field is corrupted or an event is removed."""
import copy
import json
import sys

import common


def _judge(module, items, name, consts=""):
    common.workdir(name)
    verdicts, st = common.judge(module, items, name, consts=consts, jvms=1, per_item_states=1)
    common.cleanup(name)
    return verdicts


def run(args=None):
    common.import_repo()
    import enc
    failures = 0
    report = []

    def expect(label, module, good, bad_variants):
        nonlocal failures
        items = [good] + [b for _, b in bad_variants]
        vs = _judge(module, items, "selftest")
        ok_good = 0 not in vs or vs[0][0] == "ok"
        line = f"{label}: recorded execution accepted={ok_good}"
        if not ok_good:
            failures += 1
            line += f" (verdict {vs.get(0)})"
        for k, (what, _) in enumerate(bad_variants, start=1):
            rejected = k in vs and vs[k][0] == "fail"
            line += f"; [{what}] rejected={rejected}" + (f" ({vs[k][1]})" if rejected else "")
            if not rejected:
                failures += 1
        report.append(line)
        print(line)

    # ---- C01: str(f) tokens
    import p_c01
    ev = p_c01.CHECK.execute({"runs": [[enc.enc_text("ab"), [2, 5, 2, 0, 0, 0, 0, 0]]]})
    b1 = copy.deepcopy(ev); b1["toks"].remove(["m", [0]]); b1["toks2"] = b1["toks"]
    b2 = copy.deepcopy(ev); b2["f"][0][1][0] = 3
    b3 = copy.deepcopy(ev); b3["toks"].insert(1, ["c", "", [], "", "K"]); b3["toks2"] = b3["toks"]
    expect("C01 str()", "FmtTrace", ev, [("reset-all token dropped", b1), ("claimed fg changed", b2), ("non-SGR sequence inserted", b3)])

    # ---- C09: splice result
    import fmtlib
    inp = {"op": "splice", "f": [[[97, 98, 99], fmtlib.RED], [[100], fmtlib.PLAIN]], "new": {"k": "s", "v": [[[120], [0] * 8]]},
           "s": 3, "e": 0, "en": 1}
    ev = fmtlib.exec_op(inp)
    b1 = copy.deepcopy(ev); b1["res"]["v"] = b1["res"]["v"][:-1]; b1["res"]["s"] = b1["res"]["s"][:-1]; b1["res"]["n"] -= 1
    b2 = copy.deepcopy(ev); b2["res"]["v"][0][1][0] = 5
    b3 = copy.deepcopy(ev); b3["f2"] = b3["f2"][:1]
    expect("C09 splice", "FmtTrace", ev, [("last run of the result removed", b1), ("attribute of a result run flipped", b2), ("operand recorded as changed", b3)])

    # ---- C02: a render history
    import p_c02
    hist = {"h": 3, "w": 4, "hide": 1, "steps": [
        {"k": "render", "arr": [p_c02.frow([[[97, 98], p_c02.RED]]), p_c02.srow("xy")], "cp": [1, 1], "kind": "list"},
        {"k": "render", "arr": [p_c02.frow([[[97, 98], p_c02.RED]])], "cp": [0, 0], "kind": "list"}]}
    tr = p_c02.CHECK.run_history(hist)
    b1 = copy.deepcopy(tr)
    toks = b1["ev"][2]["toks"]
    b1["ev"][2]["toks"] = [t for t in toks if not (t[0] == "c" and t[4] == "K")]   # the blanking of row 2 is dropped
    b2 = copy.deepcopy(tr); b2["ev"][1]["cp"] = [0, 0]
    b3 = copy.deepcopy(tr); del b3["ev"][1]
    expect("C02 fullscreen", "FullscreenTrace", tr, [("erase tokens of the 2nd render dropped", b1), ("claimed cursor_pos changed", b2),
                                                    ("first render event removed", b3)])

    # ---- C07: scrolling render
    import p_c07
    hist = {"h": 3, "w": 4, "hide": 0, "keep": 0, "pre": 2, "steps": [
        {"arr": [p_c07.frow([[[97], p_c07.PLAIN]])] * 3, "cp": [2, 0], "kind": "list"}]}
    tr = p_c07.CHECK.run_history(hist)
    b1 = copy.deepcopy(tr); b1["ev"][2]["ret"] += 1
    b2 = copy.deepcopy(tr); b2["ev"][2]["toks"] = [t for t in b2["ev"][2]["toks"] if t != ["t", 10]]
    expect("C07 cursor-aware", "CursorTrace", tr, [("returned scroll count shifted by one", b1), ("line feeds dropped from the tokens", b2)])

    # ---- C08: a schedule
    import inputlib
    tr = inputlib.run_history([{"k": "arrive", "bytes": [97, 98]}, {"k": "trig", "id": 1}, {"k": "req", "T": 0}, {"k": "req", "T": 0}], 8)
    b1 = copy.deepcopy(tr)
    rets = [i for i, e in enumerate(b1["ev"]) if e["k"] == "ret" and e["kind"] == "key"]
    b1["ev"][rets[-1]]["bytes"] = b1["ev"][rets[0]]["bytes"]          # a key delivered twice
    b2 = copy.deepcopy(tr); b2["ev"] = [e for e in b2["ev"] if e["k"] != "trig"]
    expect("C08 input", "InputTrace", tr, [("a key byte delivered twice", b1), ("trigger event removed from the trace", b2)])

    # ---- C04: an assignment
    import p_c04
    hist = {"h": 2, "w": 3, "fmt": 0, "steps": [{"k": "assign", "r0": 0, "r1": 1, "c0": 1, "c1": 3, "block": [p_c04.srow("xy")], "bk": "list", "form": "slice2"}]}
    tr = p_c04.CHECK.run_history(hist)
    b1 = copy.deepcopy(tr); b1["ev"][0]["rows"][1] = [[[122], [0] * 8]]
    b2 = copy.deepcopy(tr); b2["ev"][0]["rows"][0][0][0][-1] = 113
    expect("C04 fsarray", "FSArrayTrace", tr, [("a cell outside the region changed", b1), ("a cell of the region altered", b2)])

    # ---- C12: a scenario
    import p_c12
    hist = [{"k": "init", "nb": 0, "main": 1}, {"k": "enter", "kind": "Input", "sigint": 1, "nostart": 0, "hide": 0, "keep": 0},
            {"k": "op", "name": "request"}, {"k": "exit"}]
    tr = p_c12.CHECK.run_history(hist)
    b1 = copy.deepcopy(tr); b1["ev"][-1]["snap"]["sig"] = 7
    b2 = copy.deepcopy(tr); b2["ev"][-1]["snap"]["tty"] = 9
    expect("C12 contexts", "CtxTrace", tr, [("SIGINT handler after exit differs", b1), ("tty attributes after exit differ", b2)])

    print(f"selftest: {len(report)} groups, {failures} unexpected outcome(s)")
    return 0 if failures == 0 else 1

"""C03 - key decoding splits any byte stream losslessly into correctly named keys."""
import os

import enc as encmod
import common
import keylib
from purecheck import PureCheck


def valid_char(seq, enc):
    try:
        return len(seq.decode(keylib.ENC_PY[enc])) == 1
    except UnicodeDecodeError:
        return False


class C03(PureCheck):
    pid = "C03"
    module = "KeyTrace"
    per_item_states = 2
    rule = ("decision tree of the real get_key: root, the whole ESC subtree (every prefix of a table sequence), every UTF-8 "
            "lead byte, every valid 2-byte prefix under 3/4-byte leads (quick: sampled) - each node x every next byte 0..255 x "
            "full in {False, True} x 3 naming modes x encodings utf8/ascii/latin1 (every third node again with an abandoned probe of another unfinished keypress right before each call); streams K1 K2 through Input.find_key "
            "semantics (every table sequence followed by a sampled byte / table sequence / character, 'arrives whole' and "
            "'more buffered'); Unicode scalar values (quick: boundaries + 30k sampled; thorough: all 1,112,064) fed one byte "
            "at a time; end to end: keypresses written to a pipe an Input reads from (a multi-byte key at every offset around the "
            "1024-byte read boundary, a descriptor number above 256) and handed over by unget_bytes in several pieces with a "
            "request after each piece (also with the Input's context entered for each request and left again; one keypress per piece with a table key that is a prefix of longer sequences right before one of those). Key tables are extracted from the working tree. distinct_nontrivial = nodes x encodings + distinct "
            "streams + scalars")
    exhaustive = {"quick": False, "thorough": False}
    assumptions = ("the key tables of the working tree define 'recognised sequence' and 'table name'",
                   "weakest reading: a table sequence that is a proper prefix of another may be merged with what follows")

    def prepare(self, tier):
        self.tables = keylib.Tables()
        common.WORK.mkdir(exist_ok=True)
        self.tpath = common.WORK / f"keytables-{self.pid}.{os.getpid()}.json"
        self.tables.write(self.tpath)
        self.consts = ""
        os.environ["KEYTABLES"] = str(self.tpath)
        self.pipe = keylib.PipeIn()

    def design_runs(self, tier):
        cfg = ("SPECIFICATION Spec\nCONSTANT Utf8Depth = %d\nINVARIANT DecisionAllowed\nINVARIANT BufferBounded\n"
               "INVARIANT ModesAgree\nINVARIANT BytesIsBytes\nCHECK_DEADLOCK FALSE\n" % (2 if tier == "quick" else 3))
        return [dict(module="MC_KeyDecoder", cfg=cfg, workers=8, timeout=3000, env={"KEYTABLES": str(self.tpath)})]

    def inputs(self, tier, rng):
        # every third node of the decision tree is also visited with another call history: right before each of its calls
        # an unfinished keypress of one chunk less (other bytes) was probed and abandoned
        k = 0
        for inp in self._inputs0(tier, rng):
            yield inp
            if inp.get("op") == "node" and len(inp["buf"]) >= 1:
                k += 1
                if k % 3 == 0:
                    yield dict(inp, probe=1)

    def _inputs0(self, tier, rng):
        ev = self.tables.events
        encs = ["utf8", "ascii", "latin1"]
        prefixes = sorted(ev.KEYMAP_PREFIXES)
        for enc in encs:
            yield {"op": "node", "buf": [], "enc": enc}
            for p in prefixes:
                yield {"op": "node", "buf": list(p), "enc": enc}
        # UTF-8 subtree
        leads2 = list(range(0xC0, 0xE0))
        leads3 = list(range(0xE0, 0xF0))
        leads4 = list(range(0xF0, 0x100))
        for l in leads2 + leads3 + leads4:
            yield {"op": "node", "buf": [l], "enc": "utf8"}
        second = [(l, b) for l in leads3 + leads4 for b in range(0x80, 0xC0)]
        if tier == "quick":
            second = rng.sample(second, 120) + [(0xE0, 0x9F), (0xE0, 0xA0), (0xED, 0x9F), (0xED, 0xA0), (0xF0, 0x8F), (0xF0, 0x90), (0xF4, 0x8F), (0xF4, 0x90)]
        for l, b in second:
            yield {"op": "node", "buf": [l, b], "enc": "utf8"}
        third = [(l, b, c) for l in (0xF0, 0xF1, 0xF4, 0xF8, 0xFC) for b in (0x80, 0x90, 0xBF, 0x41) for c in (0x80, 0xBF, 0x20)]
        for t in (third if tier == "thorough" else rng.sample(third, 12)):
            yield {"op": "node", "buf": list(t), "enc": "utf8"}
        for t in [(0xF8, 0x80, 0x80, 0x80), (0xFC, 0x80, 0x80, 0x80, 0x80), (0xFD, 0xBF, 0xBF, 0xBF, 0xBF, 0xBF)]:
            yield {"op": "node", "buf": list(t), "enc": "utf8"}
        # invalid-continuation nodes (only losslessness / conformance is promised there)
        for _ in range(20 if tier == "quick" else 400):
            l = rng.choice(leads3 + leads4)
            yield {"op": "node", "buf": [l, rng.choice([0x20, 0x41, 0xC3, 0xFF, 0x1B])], "enc": "utf8"}
        # streams
        tabseqs = sorted(set(ev.CURTSIES_NAMES) | set(ev.CURSES_NAMES))
        chars = [b"a", b"Z", b" ", "é".encode(), "日".encode(), "😀".encode(), b"~", b"0"]
        nstream = 20000 if tier == "quick" else 240000
        seen = set()
        # fixed witnesses of the recorded finding (escape prefix followed by a non-ASCII byte)
        for enc in encs:
            yield {"op": "stream", "k1": [27, 91], "k2": [0xC3, 0xA9] if enc == "utf8" else [0xE9], "enc": enc}
        # every table sequence through Input.find_key: alone (arrives whole), followed by a letter, by another
        # escape sequence, and preceded by a letter - in every encoding
        for enc in encs:
            for K in tabseqs:
                for k1, k2 in ((K, b""), (K, b"x"), (K, b"\x1b[A"), (b"a", K)):
                    key = (k1, k2, enc)
                    if key not in seen:
                        seen.add(key)
                        yield {"op": "stream", "k1": list(k1), "k2": list(k2), "enc": enc}
        for k in range(nstream):
            enc = "utf8" if k % 3 == 0 else encs[k % 3]
            k1 = rng.choice(tabseqs) if rng.random() < 0.8 else rng.choice(chars)
            r = rng.random()
            if r < 0.35:
                k2 = bytes([rng.randrange(256)])
            elif r < 0.75:
                k2 = rng.choice(tabseqs)
            elif r < 0.9:
                k2 = rng.choice(chars)
            else:
                k2 = b""
            key = (k1, k2, enc)
            if key in seen:
                continue
            seen.add(key)
            yield {"op": "stream", "k1": list(k1), "k2": list(k2), "enc": enc}
        # the same three codecs under the other names a locale may report them by
        for alias in (1, 2, 3):
            for enc in encs:
                yield {"op": "node", "buf": [], "enc": enc, "alias": alias}
                yield {"op": "node", "buf": [27], "enc": enc, "alias": alias}
                yield {"op": "node", "buf": [27, 91], "enc": enc, "alias": alias}
                for k1, k2 in ((b"\x80", b"b"), (b"\xe9", b"\x1b[A"), (b"\x1b[A", b"\xe9"), (b"a", b"\xff"), ("é".encode(), b"x")):
                    yield {"op": "stream", "k1": list(k1), "k2": list(k2), "enc": enc, "alias": alias}
        # end to end over a pipe (a paste: everything has arrived before the first request): letters with one
        # multi-byte keypress placed at every offset around the 1024-byte read boundary, and short bursts
        for enc in encs:
            seqs = [b"\x1b[A", b"\x1b[15~", b"\x1bOP", b"\x1b[1;10A"] + (["é".encode(), "日".encode(), "😀".encode()] if enc == "utf8" else [])
            for K in seqs:
                pads = list(range(1016, 1027)) + [3, 12, 2040, 2047] if tier == "thorough" or K in seqs[:2] or len(K) == 4 else [1022, 1023]
                for pad in pads:
                    items = [bytes([97 + j % 26]) for j in range(pad)] + [K] + [bytes([65 + j % 26]) for j in range(12)]
                    yield {"op": "pipe", "items": [list(x) for x in items], "enc": enc}
                yield {"op": "pipe", "items": [[97], list(K), [98]], "enc": enc, "highfd": 1}    # descriptor number above 256
        # characters that a text renderer would join to their neighbour - combining marks of several scripts and classes,
        # ZWJ / variation selectors, enclosing marks, Hangul jamo, regional indicators, a musical combining stem outside the
        # BMP - right behind a letter, a digit, a wide character or an escape-sequence key, in one read and handed over whole:
        # each is a keypress of its own
        joiners = [0x0301, 0x0308, 0x0345, 0x05B0, 0x0651, 0x093C, 0x0E31, 0x20DD, 0x200D, 0xFE0F, 0x1161, 0x11A8, 0x1D165, 0x1F1E9, 0xE0101, 0x3099]
        bases = [b"e", b"A", b"7", "\u05d0".encode(), "\u1100".encode(), "\u65e5".encode(), "\U0001f1e9".encode(), b"\x1b[A"]
        for jn, j in enumerate(joiners):
            J = chr(j).encode()
            for bn, B in enumerate(bases):
                if tier == "thorough" or (jn + bn) % 2 == 0 or bn == 0:
                    items = [B, J, b"x"] if (jn + bn) % 3 else [b"c", b"a", b"f", B, J, J]
                    mode = ("curtsies", "bytes", "curses")[(jn + bn) % 3] if B[:1] != b"\x1b" else "bytes"
                    yield {"op": "pipe", "items": [list(x) for x in items], "enc": "utf8", "mode": mode}
                    yield {"op": "pipe", "items": [list(x) for x in items], "enc": "utf8", "pieces": [len(items)], "mode": "curtsies" if mode == "bytes" and B[:1] != b"\x1b" else mode}
        # the same end-to-end statement for bytes that arrive through unget_bytes in several pieces, a request after
        # each piece: later pieces arrive while earlier keypresses are still buffered
        for enc in encs:
            pool = [b"a", b"b", b"\x1b[A", b"\x1b[D", b"\x1bOP", b"1", b"\x1b[15~", b"z", b"\t"]
            for k in range(40 if tier == "quick" else 600):
                items = [rng.choice(pool) for _ in range(rng.randrange(3, 8))]
                pieces = [rng.randrange(1, 4) for _ in range(3)]
                yield {"op": "pipe", "items": [list(x) for x in items], "enc": enc, "pieces": pieces}
                if k % 2 == 0:
                    # the same with the Input's context entered for each request and left again (on a pty)
                    yield {"op": "pipe", "items": [list(x) for x in items], "enc": enc, "pieces": pieces, "ctx": 1}
        # one long-lived Input, one keypress per piece and a request after each: a table key that is also the beginning
        # of longer table sequences (Alt-[, Alt-O, ESC ESC) ends its piece and is a keypress; the next piece is a longer
        # sequence that starts with the very same bytes and arrives whole
        pkeys = [K for K in tabseqs if len(K) >= 2 and K in ev.KEYMAP_PREFIXES]
        for enc in encs:
            for P in pkeys:
                longer = [K for K in tabseqs if K.startswith(P) and K != P]
                for K in (longer if tier == "thorough" else longer[:3] + longer[-3:]) + [b"\x1b[A", b"x"]:
                    for items in ([b"a", P, K, b"b"], [P, K], [P, P, K], [K, P, K, K], [P, b"z", K]):
                        yield {"op": "pipe", "items": [list(x) for x in items], "enc": enc, "pieces": [1]}
                        if len(items) == 2:
                            yield {"op": "pipe", "items": [list(x) for x in items], "enc": enc, "pieces": [1], "ctx": 1}
        # line ends as data: CR LF, LF CR, CR CR LF, CR alone - in one read, behind a key, handed over by unget_bytes - and
        # sequences shaped like a terminal's cursor-position report (xterm's modified F3 is ESC [ 1 ; 2 R) among other keys
        for enc in encs:
            for items in ([b"\r", b"\n"], [b"a", b"\r", b"\n", b"b"], [b"\n", b"\r"], [b"\r", b"\r", b"\n"], [b"\x1b[15~", b"\r", b"\n"], [b"\r"],
                          [b"x", b"\r", b"\n", b"y", b"\r", b"\n"]):
                yield {"op": "pipe", "items": [list(x) for x in items], "enc": enc}
                yield {"op": "pipe", "items": [list(x) for x in items], "enc": enc, "pieces": [len(items)]}
                yield {"op": "pipe", "items": [list(x) for x in items], "enc": enc, "pieces": [1, 2]}
        # control bytes as data (the interrupt, quit, suspend, stop / start and end-of-file characters of a tty arrive as plain
        # bytes when the terminal is in raw mode or the bytes come through unget_bytes) - with every Input option that
        # concerns them: sigint_event on and off
        ctl = [b"\x03", b"\x1c", b"\x1a", b"\x13", b"\x11", b"\x04", b"\x00", b"\x7f"]
        for enc in encs:
            for k, c in enumerate(ctl):
                for sig in (0, 1):
                    yield {"op": "pipe", "items": [[97], list(c), [98]], "enc": enc, "sigint": sig}
                    yield {"op": "pipe", "items": [list(c)], "enc": enc, "sigint": sig}
                    yield {"op": "pipe", "items": [[27] + list(c), [122]], "enc": enc, "sigint": sig}
                    yield {"op": "pipe", "items": [[97 + j % 26] for j in range(6)] + [list(c)] + [[65 + j % 26] for j in range(6)], "enc": enc, "sigint": sig}
                    yield {"op": "pipe", "items": [[120], list(c), [121], list(c)], "enc": enc, "pieces": [1, 2, 1], "sigint": sig}
        # scalar values
        cps = [0x20, 0x7E, 0x7F, 0x80, 0x7FF, 0x800, 0xFFF, 0x1000, 0xD7FF, 0xE000, 0xFFFD, 0xFFFF, 0x10000, 0x3FFFF, 0x40000, 0xFFFFF, 0x100000, 0x10FFFF]
        if tier == "quick":
            cps += [rng.randrange(0x80, 0x110000) for _ in range(30000)]
            cps = [c for c in cps if not 0xD800 <= c <= 0xDFFF]
        else:
            cps = [c for c in range(0x20, 0x110000) if not 0xD800 <= c <= 0xDFFF]
        for c in cps:
            yield {"op": "scalar", "cp": c}

    def execute(self, inp):
        keylib.ALIAS = inp.get("alias", 0)
        try:
            return self._execute_case(inp)
        finally:
            keylib.ALIAS = 0

    def _execute_case(self, inp):
        T = self.tables
        if inp["op"] == "node":
            T.probe = bool(inp.get("probe"))
            try:
                return T.node_event(inp["buf"], inp["enc"])
            finally:
                T.probe = False
        if inp["op"] == "pipe":
            ev = dict(inp)
            if inp.get("pieces"):
                ev.update(keylib.run_unget(T, [bytes(x) for x in inp["items"]], inp["pieces"], inp["enc"], self.pipe, ctx=bool(inp.get("ctx")), sigint=bool(inp.get("sigint")), mode=inp.get("mode", "bytes")))
            else:
                ev.update(keylib.run_pipe(T, [bytes(x) for x in inp["items"]], inp["enc"], self.pipe, highfd=bool(inp.get("highfd")), sigint=bool(inp.get("sigint")), mode=inp.get("mode", "bytes")))
            return ev
        if inp["op"] == "stream":
            ev = dict(inp)
            k1, k2, enc = bytes(inp["k1"]), bytes(inp["k2"]), inp["enc"]
            tab = set(T.events.CURTSIES_NAMES) | set(T.events.CURSES_NAMES)

            def ok(k):
                return k in tab or valid_char(k, enc)
            ev["bytes"] = list(k1 + k2)
            ev["valid"] = int(ok(k1) and (k2 == b"" or ok(k2)))
            ev.update(keylib.run_stream(T, k1 + k2, enc, self.pipe))
            return ev
        ev = dict(inp)
        data = chr(inp["cp"]).encode("utf8")
        ev["bytes"] = list(data)
        more = 0
        ev["k"], ev["text"] = "ok", []
        try:
            for n in range(1, len(data) + 1):
                r = T.events.get_key([data[i:i + 1] for i in range(n)], "utf8", keynames=T.modes["curtsies"], full=False)
                if r is None:
                    more += 1
                else:
                    ev["text"] = encmod.enc_text(r) if isinstance(r, str) else []
                    break
        except Exception as e:  # noqa
            ev["k"] = type(e).__name__
        ev["more"] = more
        return ev

    def classify(self, ev):
        if ev["op"] == "node":
            return ("node", tuple(ev["buf"]), ev["enc"])
        if ev["op"] == "stream":
            return ("stream", tuple(ev["bytes"]), ev["enc"])
        if ev["op"] == "pipe":
            return ("pipe", len(ev["items"]), tuple(max(ev["items"], key=len)), ev["enc"])
        return ("scalar", ev["cp"])

    def case_class(self, ev, v):
        if ev["op"] == "node":
            buf = ev["buf"]
            kind = "root" if not buf else ("esc-subtree" if buf[0] == 27 else "utf8-subtree")
            return f"node:{kind}:{ev['enc']}"
        if ev["op"] == "pipe":
            return "pipe:" + ev["enc"]
        if ev["op"] == "stream":
            k1, k2 = bytes(ev["k1"]), bytes(ev["k2"])
            esc_prefix = k1 in self.tables.events.KEYMAP_PREFIXES
            nonascii = bool(k2) and k2[0] >= 128
            if esc_prefix and nonascii:
                return "stream:escape-prefix-followed-by-non-ascii-byte"
            return f"stream:{ev['enc']}"
        return "scalar"

    def describe(self, ev, v):
        if ev["op"] == "node":
            return f"node buf={ev['buf']} enc={ev['enc']}"
        return str(ev)[:600]


CHECK = C03()

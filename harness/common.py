"""Shared plumbing: environment, TLC runner, batch trace judge, evidence, known findings."""
import hashlib
import json
import os
import random
import re
import shutil
import subprocess
import sys
import time
from concurrent.futures import ThreadPoolExecutor
from pathlib import Path

VERIF = Path(__file__).resolve().parent.parent
SPEC = VERIF / "spec"
WORK = VERIF / ".work"
EVID = VERIF / "evidence"
REPLAYS = VERIF / "replays"
# light mode: a child run of the environment sweep - no design models, no TLC-generated inputs, a sample of the
# inputs, no evidence file (the parent writes it)
LIGHT = os.environ.get("VERIF_LIGHT") == "1"
REPO = os.environ.get("VERIF_REPO", "/repo")
if os.path.realpath(REPO) != "/repo":
    # a run against a scratch copy (seeded changes): its evidence and replays never replace those of /repo
    EVID = WORK / "scratch-evidence"
    REPLAYS = WORK / "scratch-replays"
TLA_CP = "/opt/veriftools/tla/tla2tools.jar:/opt/veriftools/tla/CommunityModules-deps.jar"
NCPU = os.cpu_count() or 4


class Machinery(Exception):
    """The machinery itself failed (exit 2) - never a verdict about the code."""


def seed():
    try:
        return int(os.environ.get("VERIF_SEED", "0"))
    except ValueError:
        return 0


def rng(tag=""):
    return random.Random(f"{seed()}:{tag}")


def import_repo():
    """Put the working tree first on sys.path so `import curtsies` is the tree under test."""
    if REPO not in sys.path:
        sys.path.insert(0, REPO)
    import curtsies  # noqa

    got = os.path.dirname(os.path.dirname(os.path.abspath(curtsies.__file__)))
    if os.path.realpath(got) != os.path.realpath(REPO):
        raise Machinery(f"curtsies imported from {got}, expected {REPO}")
    return curtsies


def wpath(name):
    """scratch directory of this process for `name` (several checks may run concurrently)"""
    return WORK / f"{name}.{os.getpid()}"


def workdir(name):
    d = wpath(name)
    if d.exists():
        shutil.rmtree(d, ignore_errors=True)
    d.mkdir(parents=True, exist_ok=True)
    return d


def cleanup(name):
    shutil.rmtree(wpath(name), ignore_errors=True)


STATS_RE = re.compile(r"(\d+) states generated, (\d+) distinct states found, (\d+) states left")


def run_tlc(module, cfg, wd, env=None, workers=1, timeout=900, simulate=None, depth=None,
            extra=(), heap="3g", coverage=False):
    """Run TLC on spec/<module>.tla with cfg text; returns dict(out, generated, distinct, ok).

    Raises Machinery on parse errors, timeouts or TLC internal errors; an invariant violation is
    reported as ok=False (used only by design-level model checking)."""
    wd = Path(wd)
    wd.mkdir(parents=True, exist_ok=True)
    cfgp = wd / f"{module}.cfg"
    cfgp.write_text(cfg)
    cmd = ["java", "-XX:+UseParallelGC", f"-Xmx{heap}", "-Xss256m",
           "-cp", TLA_CP, "tlc2.TLC",
           "-config", str(cfgp), "-workers", str(workers),
           "-metadir", str(wd / "meta"), "-noGenerateSpecTE", "-nowarning"]
    if coverage:
        cmd += ["-coverage", "1"]
    if simulate:
        cmd += ["-simulate", simulate]
    if depth:
        cmd += ["-depth", str(depth)]
    cmd += list(extra)
    cmd += [str(SPEC / f"{module}.tla")]
    e = dict(os.environ)
    e.pop("JAVA_TOOL_OPTIONS", None)
    if env:
        e.update({k: str(v) for k, v in env.items()})
    t0 = time.time()
    try:
        p = subprocess.run(cmd, cwd=str(SPEC), env=e, capture_output=True, text=True, timeout=timeout)
    except subprocess.TimeoutExpired:
        raise Machinery(f"TLC timed out after {timeout}s on {module}")
    out = p.stdout + p.stderr
    shutil.rmtree(wd / "meta", ignore_errors=True)
    gen = dist = 0
    for m in STATS_RE.finditer(out):
        gen, dist = int(m.group(1)), int(m.group(2))
    violated = "is violated" in out or "Error: Deadlock" in out or "Invariant" in out and "violated" in out
    hard_error = ("Parsing or semantic analysis failed" in out or "TLC threw an unexpected exception" in out
                  or "Error: TLC" in out or "java.lang." in out or "Error: Evaluating" in out
                  or "Error: The" in out or "was not enabled" in out)
    if simulate is None and not violated and (p.returncode != 0 or hard_error or not STATS_RE.search(out)):
        raise Machinery(f"TLC failed on {module} (rc={p.returncode}):\n{out[-3000:]}")
    if simulate is not None and (hard_error and not violated):
        raise Machinery(f"TLC simulate failed on {module} (rc={p.returncode}):\n{out[-3000:]}")
    return {"out": out, "generated": gen, "distinct": dist, "ok": not violated, "wall": time.time() - t0,
            "rc": p.returncode}


def tla_value_lines(out, tag):
    """Extract PrintT'ed tuples that start with <<"tag", ... >> (bracket matching; lines may interleave)."""
    res = []
    needle = f'<<"{tag}"'
    i = 0
    while True:
        j = out.find(needle, i)
        if j < 0:
            break
        depth = 0
        k = j
        instr = False
        while k < len(out):
            c = out[k]
            if instr:
                if c == "\\":
                    k += 1
                elif c == '"':
                    instr = False
            elif c == '"':
                instr = True
            elif out.startswith("<<", k):
                depth += 1
                k += 1
            elif out.startswith(">>", k):
                depth -= 1
                k += 1
                if depth == 0:
                    break
            k += 1
        res.append(out[j:k + 1])
        i = k + 1
    return res


def parse_tla(s):
    """Parse a printed TLA+ value made of tuples, strings, ints, TRUE/FALSE into Python."""
    pos = 0

    def ws():
        nonlocal pos
        while pos < len(s) and s[pos] in " \n\r\t":
            pos += 1

    def val():
        nonlocal pos
        ws()
        if s.startswith("<<", pos):
            pos += 2
            items = []
            ws()
            if s.startswith(">>", pos):
                pos += 2
                return items
            while True:
                items.append(val())
                ws()
                if s.startswith(">>", pos):
                    pos += 2
                    return items
                if s[pos] == ",":
                    pos += 1
                else:
                    raise Machinery(f"cannot parse TLA value at {pos}: {s[:200]}")
        if s[pos] == '"':
            pos += 1
            b = []
            while s[pos] != '"':
                if s[pos] == "\\":
                    pos += 1
                b.append(s[pos])
                pos += 1
            pos += 1
            return "".join(b)
        m = re.match(r"-?\d+", s[pos:])
        if m:
            pos += len(m.group(0))
            return int(m.group(0))
        for lit, v in (("TRUE", True), ("FALSE", False)):
            if s.startswith(lit, pos):
                pos += len(lit)
                return v
        raise Machinery(f"cannot parse TLA value at {pos}: {s[:200]}")

    return val()


def judge(module, items, name, consts="", jvms=None, workers=2, timeout=1200, per_item_states=1):
    """Batch trace validation: `items` (JSON-serialisable events or traces) are written as NDJSON
    shards; TLC evaluates spec/<module>.tla on each shard (Init ranges over the items of the shard).
    The module prints <<"V", index, verdict...>> for every item that is not (ok, exact).
    Returns (verdicts: {global_index: list}, stats)."""
    n = len(items)
    if n == 0:
        return {}, {"generated": 0, "distinct": 0, "jvms": 0}
    if jvms is None:
        jvms = max(1, min(NCPU // max(1, workers), (n + 1999) // 2000))
    jvms = max(1, min(jvms, n))
    wd = wpath(name)
    wd.mkdir(parents=True, exist_ok=True)
    bounds = [(k * n) // jvms for k in range(jvms + 1)]
    jobs = []
    for k in range(jvms):
        lo, hi = bounds[k], bounds[k + 1]
        if lo == hi:
            continue
        path = wd / f"shard{k}.ndjson"
        with open(path, "w") as f:
            for it in items[lo:hi]:
                f.write(json.dumps(it, separators=(",", ":")))
                f.write("\n")
        jobs.append((k, lo, hi, path))
    cfg = f"SPECIFICATION Spec\nINVARIANT Report\nCHECK_DEADLOCK FALSE\n{consts}"

    def one(job):
        k, lo, hi, path = job
        r = run_tlc(module, cfg, wd / f"j{k}", env={"TRACE_FILE": str(path)}, workers=workers, timeout=timeout)
        if not r["ok"]:
            raise Machinery(f"trace spec {module} reported an invariant violation (it must be total):\n{r['out'][-2000:]}")
        vs = {}
        for line in tla_value_lines(r["out"], "V"):
            v = parse_tla(line)
            vs[lo + v[1] - 1] = v[2:]
        done = [parse_tla(x) for x in tla_value_lines(r["out"], "DONE")]
        return vs, r, hi - lo

    verdicts = {}
    gen = dist = 0
    with ThreadPoolExecutor(max_workers=len(jobs)) as ex:
        for vs, r, cnt in ex.map(one, jobs):
            verdicts.update(vs)
            gen += r["generated"]
            dist += r["distinct"]
            if r["distinct"] < cnt * per_item_states:
                raise Machinery(f"trace spec {module}: {r['distinct']} distinct states for {cnt} items - "
                                f"not every item was judged\n{r['out'][-1500:]}")
    for k, lo, hi, path in jobs:
        try:
            os.unlink(path)
        except OSError:
            pass
    return verdicts, {"generated": gen, "distinct": dist, "jvms": len(jobs)}


# ---------------------------------------------------------------- known findings

def load_findings():
    path = VERIF / "known-findings.txt"
    res = {}
    if not path.exists():
        return res
    for line in path.read_text().splitlines():
        line = line.strip()
        if not line.startswith("finding:"):
            continue
        m = re.match(r"finding:\s+property=(\S+)\s+sig=(\S+)\s+::\s+(.*)", line)
        if m:
            res[(m.group(1), m.group(2))] = m.group(3)
    return res


# ---------------------------------------------------------------- evidence and result reporting

SWEEP = []      # filled by the driver: what the environment sweep of this run covered


def write_evidence(pid, tier, coverage, wall, violations, assumptions=()):
    if LIGHT:
        return
    EVID.mkdir(parents=True, exist_ok=True)
    cov = dict(coverage)
    cov.setdefault("states", 1)
    cov.setdefault("transitions", 1)
    cov.setdefault("traces_validated_against_impl", 0)
    if not cov.get("samples"):
        cov["samples"] = ["(no sample recorded)"]
    ev = {"property_id": pid, "tier": tier, "seed": seed(), "level": "model_checking", "coverage": cov,
          "assumptions": list(assumptions), "wall_s": round(wall, 2), "violations": violations}
    (EVID / f"{pid}.json").write_text(json.dumps(ev, indent=1, sort_keys=True) + "\n")


def save_replay(pid, payload):
    REPLAYS.mkdir(parents=True, exist_ok=True)
    blob = json.dumps(payload, sort_keys=True)
    h = hashlib.sha1(blob.encode()).hexdigest()[:12]
    p = REPLAYS / f"{pid}-{h}.json"
    p.write_text(json.dumps(payload, indent=1, sort_keys=True) + "\n")
    return p


class Report:
    """Collects failures of one check run and turns them into the exit status / output lines."""

    def __init__(self, pid):
        self.pid = pid
        self.failures = []  # (sig, text, payload)
        self.notes = []
        self.findings = load_findings()

    def fail(self, sig, text, payload):
        self.failures.append((sig, text, payload))

    def note(self, text):
        self.notes.append(text)

    def finish(self):
        """Print KNOWN-FINDING / VIOLATION lines, return exit code and number of unlisted violations."""
        known = {}
        fresh = {}
        for sig, text, payload in self.failures:
            if (self.pid, sig) in self.findings:
                known.setdefault(sig, []).append((text, payload))
            else:
                fresh.setdefault(sig, []).append((text, payload))
        for sig, lst in sorted(known.items()):
            print(f"KNOWN-FINDING: property={self.pid} {self.findings[(self.pid, sig)]} [sig={sig}; {len(lst)} case(s) this run]")
        nviol = 0
        for nsig, (sig, lst) in enumerate(sorted(fresh.items())):
            nviol += len(lst)
            if nsig >= 6:
                if nsig == 6:
                    print(f"  ... and {len(fresh) - 6} more failing signatures (see evidence)")
                continue
            for text, payload in lst[:1]:
                payload = dict(payload)
                payload["property"] = self.pid
                payload["signature"] = sig
                payload["what"] = text
                p = save_replay(self.pid, payload)
                print(f"VIOLATION property={self.pid} replay={p}")
                print(f"  signature={sig} cases={len(lst)} :: {text[:600]}")
        return (1 if fresh else 0), nviol, sorted(fresh), sorted(known)

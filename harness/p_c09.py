"""C09 - splice replaces exactly the requested range and nothing else."""
import fmtlib
from fmtlib import layouts, vlen
from purecheck import PureCheck


def S(text):
    return {"k": "s", "v": [[list(text), [0] * 8]]}


def F(runs):
    return {"k": "f", "v": runs}


RAW1 = S([27, 91, 51, 49, 109, 114, 27, 91, 51, 57, 109])        # ESC[31m r ESC[39m as a plain str
RAW2 = S([120, 155, 49, 109, 121])                                  # x CSI 1 m y (8-bit introducer)
NEWPOOL_Q = [S([]), S([120]), S([120, 121]), S([32]), F([]), F([[[], [0] * 8]]), F([[[120], fmtlib.RED]]),
             F([[[120], fmtlib.RED], [[121, 122], fmtlib.BOLD_ON_BLUE]]), F([[[], fmtlib.RED], [[120], fmtlib.PLAIN]])]


class C09(PureCheck):
    pid = "C09"
    subst_every = 6
    warm_every = 3
    rule = ("f in Layouts(R,2) (all run lists of <=R runs of length 0..2 over {a,b} x 3 attribute records, empty runs "
            "included), new in a pool of str/FmtStr values (empty, multi-run, leading empty run), every 0<=start<=end<=len+2 "
            "and end omitted - every alignment with every run boundary; plus append(x); plus, for every range, new values whose text equals the replaced text with other / no formatting. quick: R=2 complete + sampled R=3; "
            "thorough: R=3 complete. distinct_nontrivial = distinct (run-length profile of f, kind/length of new, start, end)")
    exhaustive = {"quick": False, "thorough": False}

    def design_runs(self, tier):
        cfg = ("SPECIFICATION Spec\nCONSTANT MaxRuns = %d\nCONSTANT MaxLen = 2\nCONSTANT Ops = {\"splice\",\"append\"}\n"
               "INVARIANT ImplRefinesAbs\nCHECK_DEADLOCK FALSE\n" % (2 if tier == "quick" else 3))
        return [dict(module="MC_Fmt", cfg=cfg, workers=12, timeout=3000)]

    def inputs(self, tier, rng):
        L2 = list(layouts(2, 2))
        if tier == "thorough":
            # all <=2-run layouts, all 3-run layouts with runs of length <= 1, and a sample of the other 3-run layouts
            L3short = [l for l in layouts(3, 1) if len(l) == 3]
            L3 = [l for l in layouts(3, 2) if len(l) == 3]
            pool = L2 + L3short + rng.sample(L3, 1500)
            news = NEWPOOL_Q + [F(l) for l in rng.sample(L2, 4)]
        else:
            L3 = [l for l in layouts(3, 2) if len(l) == 3]
            pool = L2 + rng.sample(L3, 200)
            news = NEWPOOL_Q
        for f in pool:
            n = vlen(f)
            for new in news:
                for s in range(0, n + 3):
                    yield {"op": "splice", "f": f, "new": new, "s": s, "e": 0, "en": 1}
                    for e in range(s, n + 3):
                        yield {"op": "splice", "f": f, "new": new, "s": s, "e": e, "en": 0}
                yield {"op": "append", "f": f, "new": new}
        # new values given as plain strs that carry SGR sequences (splice / append parse them)
        for f in pool[::9]:
            n = vlen(f)
            for new in (RAW1, RAW2):
                for s in range(0, n + 2):
                    yield {"op": "splice", "f": f, "new": new, "s": s, "e": 0, "en": 1}
                    for e in range(s, n + 2):
                        yield {"op": "splice", "f": f, "new": new, "s": s, "e": e, "en": 0}
                yield {"op": "append", "f": f, "new": new}
        # runs whose text is spelled like a fragment of the escape sequence that wraps them ("31" in red, "44" on blue,
        # "1m" in bold), spliced strictly inside - fresh, and after the value was rendered / measured (warm 2, 15)
        for text, a in (("31", [2, 0, 0, 0, 0, 0, 0, 0]), ("44", [0, 5, 0, 0, 0, 0, 0, 0]), ("1m", [0, 0, 2, 0, 0, 0, 0, 0]),
                        ("[3", [2, 0, 0, 0, 0, 0, 0, 0]), ("31m", [2, 0, 2, 0, 0, 0, 0, 0]), ("4m", [0, 0, 0, 0, 0, 2, 0, 0])):
            t = [ord(ch) for ch in text]
            for f in ([[t, list(a)]], [[[108, 32], [0] * 8], [t, list(a)], [[32, 100], [0] * 8]]):
                n = vlen(f)
                for new in (S([120]), F([[[120], fmtlib.RED]]), S([])):
                    for st in range(0, n + 1):
                        for w in (0, 2, 15):
                            yield dict({"op": "splice", "f": f, "new": new, "s": st, "e": 0, "en": 1}, **({"warm": w} if w else {}))
                            if st < n:
                                yield dict({"op": "splice", "f": f, "new": new, "s": st, "e": st + 1, "en": 0}, **({"warm": w} if w else {}))
        # values with many runs (a long syntax-highlighted line): splices at the start, around a middle boundary, at the end
        for nruns in (31, 32, 33, 40, 70):
            f = [[[97 + (j % 3)] * (1 + j % 2), list(fmtlib.ATTS3[j % 3])] for j in range(nruns)]
            n = vlen(f)
            for new in (S([120]), F([[[120, 121], fmtlib.RED]]), S([])):
                for (a, b) in ((0, 0), (0, 1), (0, 3), (1, 1), (n // 2, n // 2 + 2), (n - 1, n), (n, n), (0, n)):
                    yield {"op": "splice", "f": f, "new": new, "s": a, "e": b, "en": 0}
                yield {"op": "splice", "f": f, "new": new, "s": 0, "e": 0, "en": 1}
                yield {"op": "append", "f": f, "new": new}
        # repainting: the new text equals the text it replaces, only the formatting differs (or is dropped)
        under = [0, 0, 0, 0, 0, 2, 0, 0]
        for f in pool:
            n = vlen(f)
            text = [cp for t, _ in f for cp in t]
            for s in range(0, n):
                for e in range(s + 1, n + 1):
                    seg = text[s:e]
                    for new in (S(seg), F([[seg, under]]), F([[seg[:1], under], [seg[1:], fmtlib.PLAIN]])):
                        yield {"op": "splice", "f": f, "new": new, "s": s, "e": e, "en": int(e == s + 1 and e % 2 == 0)}

    def execute(self, inp):
        return fmtlib.exec_op(inp)

    def classify(self, ev):
        prof = tuple(len(t) for t, a in ev["f"])
        return (ev["op"], prof, ev["new"]["k"], tuple(len(t) for t, a in ev["new"]["v"]), ev.get("s"), ev.get("e"), ev.get("en"))

    def case_class(self, ev, v):
        if ev["op"] == "append":
            return "append"
        f = ev["f"]
        n = vlen(f)
        newlen = vlen(ev["new"]["v"])
        s = ev["s"]
        e = s if ev["en"] else ev["e"]
        bounds = set()
        c = 0
        for t, _ in f:
            bounds.add(c)
            c += len(t)
        bounds.add(c)
        if newlen and [cp for t, _ in ev["new"]["v"] for cp in t] == [cp for t, _ in f for cp in t][s:e]:
            return "splice:same-text-other-formatting"
        if newlen == 0:
            return "splice:empty-new:" + ("insert" if s == e else "delete")
        if s > n:
            return "splice:start-past-end"
        where = "boundary" if s in bounds and 0 < s < n else ("zero" if s == 0 else "end" if s == n else "inside")
        return f"splice:{'insert' if s == e else 'replace'}:start-{where}"

    def describe(self, ev, v):
        d = {k: ev[k] for k in ev if k not in ("res", "f2")}
        return f"{d} -> {ev['res']}"


CHECK = C09()

"""Shared pieces for the FmtStr-algebra checks: bounded layout enumeration, operation executor."""
import itertools

import enc

PLAIN = [0, 0, 0, 0, 0, 0, 0, 0]
RED = [2, 0, 0, 0, 0, 0, 0, 0]
BOLD_ON_BLUE = [0, 5, 2, 0, 0, 0, 0, 0]
ATTS3 = [PLAIN, RED, BOLD_ON_BLUE]


def texts_upto(alphabet, maxlen, minlen=0):
    for n in range(minlen, maxlen + 1):
        for t in itertools.product(alphabet, repeat=n):
            yield list(t)


def layouts(max_runs, max_len, alphabet=(97, 98), atts=ATTS3, min_runs=0):
    """All run lists of <= max_runs runs, each a text of length 0..max_len over the alphabet with one of
    the attribute records (empty runs and the run-less value included)."""
    runs = [[t, list(a)] for t in texts_upto(alphabet, max_len) for a in atts]
    for n in range(min_runs, max_runs + 1):
        for combo in itertools.product(runs, repeat=n):
            yield [[list(t), list(a)] for t, a in combo]


def vlen(runs):
    return sum(len(t) for t, _ in runs)


def renders_its_runs(f):
    """1 when the views of f (terminal string - also read a second time -, repr, len, hash, text, width, run
    offsets), memoised or not, are those of a value freshly built from the same runs"""
    from curtsies.formatstring import FmtStr, Chunk

    def view(x):
        out = []
        for get in (str, repr, len, hash, lambda v: v.s, lambda v: v.width, lambda v: str(v), lambda v: v.divides):
            try:
                out.append(get(x))
            except Exception as e:  # noqa - an exception is a view too (width of control characters)
                out.append(type(e).__name__)
        return out
    try:
        return int(view(f) == view(FmtStr(*(Chunk("".join(c.s), dict(c.atts)) for c in f.chunks))))
    except Exception:  # noqa
        return 0


KEEP = __import__("collections").deque(maxlen=4000)   # results stay alive long after their operands are gone


_CUTS = [0]
CUT_SEED = 0


class _Cut(Exception):
    """raised by the harness inside a library call to cut it short (an asynchronous exception: a signal handler
    that raises, a watchdog)"""


def _cut_short(fn):
    """warming bit 64: the same call was made before and cut short by a foreign exception arriving at some line inside
    the library; it must propagate (a call that swallows it returns whatever it returns - and is judged on it), and
    whatever the call had stored by then must not affect the call that is recorded.  Returns (swallowed, value)."""
    import random
    import sys
    _CUTS[0] += 1          # position: a function of the input being executed (replays repeat it) and of the call's rank in it
    pos = random.Random(CUT_SEED * 1000 + _CUTS[0]).randrange(1, 40)
    seen = [0]

    def tracer(frame, event, arg):
        if "curtsies" not in frame.f_code.co_filename:
            return None
        if event == "line":
            seen[0] += 1
            if seen[0] == pos:
                sys.settrace(None)
                raise _Cut()
        return tracer
    old = sys.gettrace()
    sys.settrace(tracer)
    try:
        r = fn()
        if not isinstance(r, (str, list)) and r is not None:
            try:
                r = list(r) if not hasattr(r, "chunks") else r
            except TypeError:
                pass
        return seen[0] >= pos, r
    except _Cut:
        return False, None
    except BaseException:  # noqa - the library's own exceptions on this input
        return False, None
    finally:
        sys.settrace(old)


def _again(fn):
    """warming bit 32: the very same call on the very same operand objects was made (and its result used up)
    once before the call that is recorded"""
    if enc.WARM & 32:
        try:
            r = fn()
            if isinstance(r, list):
                r.clear()          # the caller trimmed / reused the list it was handed
            elif not isinstance(r, str):
                try:
                    list(r)
                except TypeError:
                    pass
        except Exception:  # noqa
            pass


def enc_res(fn):
    """Run fn() on the real code; encode a FmtStr result or the exception."""
    from curtsies.formatstring import FmtStr
    _again(fn)
    swallowed = False
    if enc.WARM & 64:
        swallowed, r0 = _cut_short(fn)
    try:
        r = r0 if swallowed else fn()
    except Exception as e:  # noqa - every exception class is an observation
        return {"k": "exc", "v": [], "t": enc.exc_name(e), "n": 0, "s": [], "fr": 1}
    KEEP.append(r)
    if isinstance(r, str):
        return {"k": "ok", "v": [[enc.enc_text(r), list(enc.NOATTS)]], "t": "str", "n": len(r), "s": enc.enc_text(r), "fr": 1}
    if not isinstance(r, FmtStr):
        return {"k": "exc", "v": [], "t": "NotAFmtStr:" + type(r).__name__, "n": 0, "s": [], "fr": 1}
    try:
        return {"k": "ok", "v": enc.enc_fmtstr(r), "t": "", "n": len(r), "s": enc.enc_text(r.s), "fr": renders_its_runs(r)}
    except Exception as e:  # noqa
        return {"k": "exc", "v": [], "t": "OnObserve:" + enc.exc_name(e), "n": 0, "s": [], "fr": 1}


def enc_list_res(fn):
    """fn() returns a list of FmtStr -> {"k","t","vs":[runs...]}"""
    from curtsies.formatstring import FmtStr
    _again(fn)
    swallowed = False
    if enc.WARM & 64:
        swallowed, r0 = _cut_short(fn)
    try:
        r = list(r0) if swallowed and r0 is not None else list(fn())
    except Exception as e:  # noqa
        return {"k": "exc", "t": enc.exc_name(e), "vs": [], "fr": 1}
    KEEP.append(r)
    if not all(isinstance(x, FmtStr) for x in r):
        return {"k": "exc", "t": "NotFmtStrList", "vs": [], "fr": 1}
    return {"k": "ok", "t": "", "vs": [enc.enc_fmtstr(x) for x in r], "fr": int(all(renders_its_runs(x) for x in r))}


def exec_op(inp):
    """Execute one operation description on the real code and return the recorded event."""
    op = inp["op"]
    ev = dict(inp)
    B = enc.build_fmtstr
    if op == "slice":
        f = B(inp["f"])
        sl = slice(None if inp["an"] else inp["a"], None if inp["bn"] else inp["b"])
        ev["res"] = enc_res(lambda: f[sl])
    elif op == "index":
        f = B(inp["f"])
        ev["res"] = enc_res(lambda: f[inp["i"]])
    elif op == "add":
        x, y = enc.build_value(inp["x"]), enc.build_value(inp["y"])
        if inp.get("aug"):
            import operator       # alias = x; alias += y
            ev["res"] = enc_res(lambda: operator.iadd(x, y))
        else:
            ev["res"] = enc_res(lambda: x + y)
        ev["x2"] = enc.enc_value(x)["v"]
        ev["y2"] = enc.enc_value(y)["v"]
    elif op == "mul":
        f = B(inp["f"])
        ev["res"] = enc_res(lambda: f * inp["n"])
    elif op == "join":
        sep = B(inp["sep"])
        items = [enc.build_value(v) for v in inp["items"]]
        # the items handed over as a list, a tuple, or a one-shot iterable (generator, iter(), map, reversed)
        shape = [lambda: items, lambda: tuple(items), lambda: (x for x in items), lambda: iter(items),
                 lambda: map(lambda x: x, items), lambda: reversed(items[::-1])][inp.get("it", 0) % 6]
        ev["res"] = enc_res(lambda: sep.join(shape()))
    elif op in ("splice", "append") and inp["new"]["k"] == "s" and any(c in (27, 155) for t, _ in inp["new"]["v"] for c in t):
        # a plain str that carries SGR sequences is parsed by splice / append: the equivalent spelling the verdict is
        # computed from is the same call with the parsed value
        from curtsies.formatstring import FmtStr
        f = B(inp["f"])
        new = enc.build_value(inp["new"])
        ev["new"] = {"k": "f", "v": enc.enc_fmtstr(FmtStr.from_str(new))}
        ev["rawnew"] = inp["new"]
        if op == "append":
            ev["res"] = enc_res(lambda: enc.call(f.append, new))
        elif inp["en"]:
            ev["res"] = enc_res(lambda: enc.call(f.splice, new, inp["s"]))
        else:
            ev["res"] = enc_res(lambda: enc.call(f.splice, new, inp["s"], inp["e"]))
        ev["f2"] = enc.enc_fmtstr(f)
    elif op == "splice":
        f = B(inp["f"])
        new = enc.build_value(inp["new"])
        if inp["en"]:
            ev["res"] = enc_res(lambda: enc.call(f.splice, new, inp["s"]))
        else:
            ev["res"] = enc_res(lambda: enc.call(f.splice, new, inp["s"], inp["e"]))
        ev["f2"] = enc.enc_fmtstr(f)
    elif op == "append":
        f = B(inp["f"])
        new = enc.build_value(inp["new"])
        ev["res"] = enc_res(lambda: enc.call(f.append, new))
        ev["f2"] = enc.enc_fmtstr(f)
    else:
        raise ValueError("unknown op " + op)
    return ev

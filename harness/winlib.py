"""Environment doubles for the window classes: a capturing out_stream whose fileno() is a pty slave
(blessed reads the window size from it), sized with TIOCSWINSZ."""
import fcntl
import os
import pty
import struct
import termios

import enc


class CaptureStream:
    def __init__(self, h, w):
        self.master, self.slave = pty.openpty()
        self.buf = []
        self.set_size(h, w)

    def set_size(self, h, w):
        fcntl.ioctl(self.slave, termios.TIOCSWINSZ, struct.pack("HHHH", h, w, 0, 0))

    def write(self, s):
        self.buf.append(s)
        return len(s)

    def flush(self):
        pass

    def fileno(self):
        return self.slave

    def isatty(self):
        return True

    def take(self):
        s = "".join(self.buf)
        self.buf = []
        return s

    def close(self):
        for fd in (self.master, self.slave):
            try:
                os.close(fd)
            except OSError:
                pass


def build_row(v):
    """{"k":"s"|"f","v":runs} -> str or FmtStr"""
    return enc.build_value(v)


def build_array(arr, kind, derive=False):
    """derive: FmtStr rows are restyled versions of values that were rendered before (enc.WARM bit 256)"""
    saved = enc.WARM
    if derive:
        enc.WARM = saved | 256
    try:
        rows = [build_row(r) for r in arr]
    finally:
        enc.WARM = saved
    if kind == "fsarray":
        from curtsies.formatstringarray import fsarray
        return fsarray(rows)
    if kind == "fsarray_rows":
        # an FSArray filled row by row with whole-row assignment (a[i] = row, the form of the module docstring):
        # its declared width is that of its first row, later rows may be longer
        from curtsies.formatstringarray import FSArray
        from curtsies.formatstring import fmtstr
        a = FSArray(len(rows), len(rows[0]) if rows else 0)
        for i, r in enumerate(rows):
            a[i] = r if not isinstance(r, str) else fmtstr(r)
        return a
    if kind == "tuple":
        return tuple(rows)          # any sequence of lines is a frame
    return rows


class QueryStream(CaptureStream):
    """out_stream for CursorAwareWindow: answers every cursor position query (ESC[6n) through the
    in_stream pty with the position the harness says the cursor is at (`pos`, 0-based row/col)."""

    def __init__(self, h, w):
        super().__init__(h, w)
        self.in_master, self.in_slave = pty.openpty()
        # byte-transparent input side
        attrs = termios.tcgetattr(self.in_slave)
        attrs[0] = 0
        attrs[1] = 0
        attrs[3] = 0
        attrs[6][termios.VMIN] = 1
        attrs[6][termios.VTIME] = 0
        termios.tcsetattr(self.in_slave, termios.TCSANOW, attrs)
        self.in_stream = open(self.in_slave, "r", closefd=False, newline="")
        self.pos = (0, 0)
        self.replies = []

    def write(self, s):
        n = s.count("\x1b[6n")
        for _ in range(n):
            r, c = self.pos() if callable(self.pos) else self.pos
            os.write(self.in_master, b"\x1b[%d;%dR" % (r + 1, c + 1))
            self.replies.append([r + 1, c + 1])
        return super().write(s)

    def close(self):
        super().close()
        try:
            self.in_stream.close()
        except Exception:  # noqa
            pass
        for fd in (self.in_master, self.in_slave):
            try:
                os.close(fd)
            except OSError:
                pass

"""Environment doubles for the window classes: a capturing out_stream whose fileno() is a pty slave
(blessed reads the window size from it), sized with TIOCSWINSZ."""
import fcntl
import os
import pty
import struct
import termios

import enc


class CaptureStream:
    def __init__(self, h, w):
        self.master, self.slave = pty.openpty()
        self.buf = []
        self.set_size(h, w)

    def set_size(self, h, w):
        fcntl.ioctl(self.slave, termios.TIOCSWINSZ, struct.pack("HHHH", h, w, 0, 0))

    def write(self, s):
        self.buf.append(s)
        return len(s)

    def flush(self):
        pass

    def fileno(self):
        return self.slave

    def isatty(self):
        return True

    def take(self):
        s = "".join(self.buf)
        self.buf = []
        return s

    def close(self):
        for fd in (self.master, self.slave):
            try:
                os.close(fd)
            except OSError:
                pass


def build_row(v):
    """{"k":"s"|"f","v":runs} -> str or FmtStr"""
    return enc.build_value(v)


def build_array(arr, kind):
    rows = [build_row(r) for r in arr]
    if kind == "fsarray":
        from curtsies.formatstringarray import fsarray
        return fsarray(rows)
    return rows

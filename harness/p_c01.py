"""C01 - str(FmtStr) displays exactly its characters and formatting, then resets."""
import itertools

import enc
from purecheck import PureCheck

TEXTS = ["", "a", "ab", "a\nb\t", "Ｅ́x", "\u0301", "\u200d"]   # the last two: zero-width characters on their own


def all_atts(style_vals=(0, 1, 2)):
    for fg in range(9):
        for bg in range(9):
            for st in itertools.product(style_vals, repeat=6):
                yield [fg, bg] + list(st)


class C01(PureCheck):
    pid = "C01"
    warm_every = 2
    rule = ("every attribute record (9 fg x 9 bg x {absent,False,True}^6; quick: all 5,184 records without "
            "explicit False + sampled False variants) built through fmtstr(text, **kwargs) with 7 texts "
            "(empty, ASCII, controls, wide+combining, a combining mark / ZWJ alone in its run), one run of 4095 / 4096 / 5000 / 65537 characters, texts that Unicode normalisation would rewrite, empty runs between visible runs carrying either neighbour's or other attributes, sums sharing an already rendered left operand, every subset of the styles switched on with the int 1 instead of True, runs of blanks only under every single attribute and fg + each other attribute, every C0 (without ESC) / DEL / C1 (without CSI) control character first, last and alone in a run, plus values that come out of the parser (FmtStr.from_str / fmtstr on every string of <=3 items over text and SGR / cursor-home sequences, closed or left open), plus multi-run values built with + (empty runs "
            "included); str(f) is lexed and the token list validated by TLC (Sgr.tla stream terminal). "
            "distinct_nontrivial = distinct (attribute records of all runs, text lengths) with at least one "
            "rendered attribute")
    assumptions = ("the ECMA-48 lexer of the harness (enc.lex) is trusted; it is cross-checked against pyte by ./check setup",
                   "SGR semantics are those of Sgr.tla (ECMA-48 / xterm): 0 resets all, 39/49 reset colours")
    exhaustive = {"quick": False, "thorough": True}

    def design_runs(self, tier):
        sv = "{0,1,2}" if tier == "thorough" else "{0,2}"
        mr = 3 if tier == "thorough" else 2
        cfg = (f"SPECIFICATION Spec\nCONSTANT MaxRuns = {mr}\nCONSTANT StyleVals = {sv}\n"
               "INVARIANT InvRunNeutral\nINVARIANT InvOnlySgr\nINVARIANT InvShownExact\nINVARIANT InvEndsDefault\n"
               "CHECK_DEADLOCK FALSE\n")
        return [dict(module="MC_ColorStr", cfg=cfg, workers=8)]

    def inputs(self, tier, rng):
        if tier == "thorough":
            for k, a in enumerate(all_atts()):
                for t in TEXTS:
                    yield {"runs": [[enc.enc_text(t), a]]}
            nmulti = 60000
        else:
            for k, a in enumerate(all_atts((0, 2))):
                yield {"runs": [[enc.enc_text(TEXTS[k % len(TEXTS)]), a]]}
            for k in range(2000):
                a = [rng.randrange(9), rng.randrange(9)] + [rng.randrange(3) for _ in range(6)]
                yield {"runs": [[enc.enc_text(TEXTS[k % len(TEXTS)]), a]]}
            nmulti = 3000
        for k in range(600 if tier == "quick" else 6000):
            a = [rng.choice([0, 2, 5]), rng.choice([0, 0, 4])] + [rng.choice([0, 1, 1, 2]) for _ in range(6)]
            yield {"runs": [[enc.enc_text(TEXTS[k % len(TEXTS)]), a]], "twin": 1}
        # values that come out of the parser: every string of <= 3 items over text and sequences, closed or left open
        items = ["a", "b\n", "\x1b[31m", "\x1b[1m", "\x1b[44m", "\x1b[0m", "\x1b[39m", "\x1b[H", "\x1b[4;32m"]
        k = 0
        for n in (1, 2, 3):
            for combo in itertools.product(items, repeat=n):
                if any(c[0] == "\x1b" for c in combo) and any(c[0] != "\x1b" for c in combo):
                    k += 1
                    yield {"runs": [], "raw": enc.enc_text("".join(combo)), "via": k % 2}
        # one very long run (around 4096 and 65536 characters) under single attributes and pairs
        for n in (4095, 4096, 5000, 65537):
            for a in ([0, 5, 0, 0, 0, 0, 0, 0], [2, 0, 0, 0, 0, 0, 0, 0], [2, 5, 0, 0, 0, 0, 0, 0], [0, 1, 1, 0, 0, 0, 0, 0],
                      [0, 0, 2, 0, 0, 0, 0, 0], [0, 8, 0, 0, 0, 2, 0, 0]):
                if n < 60000 or a[1] == 5:
                    yield {"runs": [[[120] * n, list(a)]]}
                    yield {"runs": [[[62], [5, 0, 0, 0, 0, 0, 0, 0]], [[20013] * n, list(a)], [[33], [0] * 8]]}
        # texts spelled like a fragment of the very escape sequence that will wrap them ("31" in red, "1m" in bold, "[44"
        # on blue): rendered first, then cut - head and tail - and rendered again
        for text, a in (("31", [2, 0, 0, 0, 0, 0, 0, 0]), ("[3", [2, 0, 0, 0, 0, 0, 0, 0]), ("1m", [0, 0, 2, 0, 0, 0, 0, 0]),
                        ("[1", [0, 0, 2, 0, 0, 0, 0, 0]), ("44", [0, 5, 0, 0, 0, 0, 0, 0]), ("[44", [0, 5, 0, 0, 0, 0, 0, 0]),
                        ("4m", [0, 0, 0, 0, 0, 2, 0, 0]), ("\x5b4m", [0, 0, 0, 0, 0, 2, 0, 0]), ("31m", [2, 0, 2, 0, 0, 0, 0, 0]),
                        ("36", [7, 0, 0, 0, 0, 0, 0, 0]), ("7m", [0, 0, 0, 0, 0, 0, 0, 2]), ("[0m", [0, 0, 2, 0, 0, 0, 0, 0])):
            for d in ("slice", "slice_tail", "splice", "add"):
                for rf in (1, 0):
                    yield {"runs": [[enc.enc_text(text), list(a)]], "derive": d, "render_first": rf}
                    yield {"runs": [[enc.enc_text(text), list(a)], [[120], [0] * 8]], "derive": d, "render_first": rf}
        # runs that hold nothing but blanks (space, newline, tab, ideographic / no-break space): every single attribute
        # alone, and the foreground colour with each other attribute - alone and between two visible runs
        for t in (" ", "  ", "\n", "\t ", "\u3000", "\xa0", " \n "):
            recs = []
            for i in range(8):
                for v in ((1, 5) if i < 2 else (2, 1)):
                    a = [0] * 8
                    a[i] = v
                    recs.append(a)
                    if i > 0:
                        recs.append([3] + a[1:])
            for a in recs:
                yield {"runs": [[enc.enc_text(t), a]]}
                yield {"runs": [[[120], [0, 0, 2, 0, 0, 0, 0, 0]], [enc.enc_text(t), a], [[121], [4, 0, 0, 0, 0, 0, 0, 0]]]}
        # every control character that is no introducer (C0 without ESC, DEL, C1 without CSI) first, last and alone in a run
        for c in [c for c in range(0, 32) if c != 27] + [127] + [c for c in range(128, 160) if c != 155]:
            a = [1 + c % 8, (c // 8) % 9, 2 * (c % 2), 0, 0, 2 * ((c // 2) % 2), 0, 0]
            for text in ([c, 97], [97, c], [c]):
                yield {"runs": [[list(text), a]]}
                yield {"runs": [[[120], a], [list(text), [0] * 8], [[121], [0, 2, 0, 0, 2, 0, 0, 0]]]}
        # texts that Unicode normalisation would rewrite (base + combining mark with a precomposed form, singletons,
        # conjoining jamo, marks in non-canonical order, compatibility forms) under plain, one and several attributes
        for t in ("e\u0300", "a\u0300b", "\u212b", "\u2126x", "\u212a", "\u1112\u1161\u11ab", "q\u0323\u0307", "q\u0307\u0323", "\ufb01", "\uf900", "\u00e8", "\u1e9b\u0323"):
            for a in ([0] * 8, [2, 0, 0, 0, 0, 0, 0, 0], [0, 5, 2, 0, 0, 2, 0, 0], [3, 0, 1, 0, 0, 0, 0, 0]):
                yield {"runs": [[enc.enc_text(t), list(a)]]}
                yield {"runs": [[[120], [0, 0, 2, 0, 0, 0, 0, 0]], [enc.enc_text(t), list(a)], [[121], [4, 0, 0, 0, 0, 0, 0, 0]]]}
        # empty runs between visible runs, carrying the attributes of the run before them, of the run after them, or others
        pool = [[0] * 8, [2, 0, 0, 0, 0, 0, 0, 0], [5, 0, 0, 0, 0, 0, 0, 0], [0, 3, 0, 0, 0, 0, 0, 0], [0, 0, 2, 0, 0, 0, 0, 0], [2, 0, 2, 0, 0, 0, 0, 0],
                [0, 0, 1, 0, 0, 0, 0, 0], [2, 4, 0, 0, 0, 2, 0, 0]]
        for X in pool:
            for Y in pool:
                for Z in (X, Y, pool[(pool.index(X) + pool.index(Y) + 1) % len(pool)]):
                    yield {"runs": [[[97], list(X)], [[], list(Z)], [[98], list(Y)]]}
                    yield {"runs": [[[97], list(X)], [[], list(Z)], [[], list(Y)], [[98], list(Y)], [[], list(X)], [[99], list(X)]]}
        # sums that share an already rendered left operand
        for k in range(300 if tier == "quick" else 3000):
            runs = []
            for _ in range(rng.choice([2, 3, 3, 4])):
                a = [rng.choice([0, 2, 5]), rng.choice([0, 0, 4])] + [rng.choice([0, 0, 2]) for _ in range(6)]
                runs.append([enc.enc_text(rng.choice(["a", "xy", "b\n", ">>> ", "c"])), a])
            yield {"runs": runs, "chain": 1 + k % 3}
        # every subset of the styles switched on with the int 1 (alone, with colours, next to a run that uses True)
        for k, st in enumerate(itertools.product((0, 2), repeat=6)):
            if any(st):
                a = [(k % 9), (k // 9) % 9] + list(st)
                yield {"runs": [[[97, 98], a]], "ints": 1}
                yield {"runs": [[[120], [0, 0] + list(st)], [[10, 121], a]], "ints": 1}
        for k in range(nmulti):
            n = rng.choice([0, 2, 2, 3, 3, 4])
            runs = []
            for _ in range(n):
                a = [rng.choice([0, 0, 2, 5, 8]), rng.choice([0, 0, 1, 4])] + [rng.choice([0, 0, 0, 1, 2]) for _ in range(6)]
                runs.append([enc.enc_text(rng.choice(["", "a", "b\n", "xy", "\u0301", "e", "Ｅ"])), a])
            yield {"runs": runs}
        # values derived by an operation from a value that was rendered (str() taken) before: the memoised
        # terminal string of the operand must not leak into what the result displays
        derive = ["removeatts_bg", "removeatts_fg_bold", "withatts", "ljust0", "rjust0", "slice", "splice", "add", "rewrap", "newstr", "copy"]
        for k in range(1500 if tier == "quick" else 30000):
            runs = []
            for _ in range(rng.choice([1, 2, 2, 3])):
                a = [rng.choice([0, 2, 5]), rng.choice([0, 1, 4, 4])] + [rng.choice([0, 0, 1, 2]) for _ in range(6)]
                runs.append([enc.enc_text(rng.choice(["a", "xy", "b\n", ""])), a])
            yield {"runs": runs, "derive": derive[k % len(derive)], "render_first": int(k % 3 != 0)}

    def execute(self, inp):
        from curtsies.formatstring import fmtstr, FmtStr, Chunk
        f = FmtStr()
        runs = inp["runs"]
        if inp.get("twin"):
            # another object - the same runs with styles given as the ints 0 / 1 instead of False / True - was rendered
            # earlier in the process: what that displayed says nothing about the value under test
            for t, a in runs:
                d = {k: (int(v) if isinstance(v, bool) else v) for k, v in enc.dec_atts(a).items()}
                str(FmtStr(Chunk(enc.dec_text(t), d)))
        if inp.get("raw") is not None:
            # the value comes out of the parser (FmtStr.from_str called directly, or fmtstr) on a str that carries
            # escape sequences - open colours at the end, resets in the middle, a tolerated cursor-home
            raw = enc.dec_text(inp["raw"])
            f = FmtStr.from_str(raw) if inp["via"] else fmtstr(raw)
        elif inp.get("chain"):
            # leaves that were all rendered before any addition; the same left operand is used for two sums, and the
            # recorded value is the second sum (chain 1) or the first one, rendered only after the second was made (chain 2)
            leaves = [fmtstr(enc.dec_text(t), **enc.dec_atts(a)) for t, a in runs]
            for x in leaves:
                str(x)
            first = leaves[0] + leaves[1]
            second = leaves[0] + leaves[2 % len(leaves)]
            third = first + leaves[-1]
            f = (second, first, third)[inp["chain"] - 1]
            if inp["chain"] == 3:
                str(first), str(second)
        elif inp.get("ints"):
            # styles switched on with the int 1 instead of True (a flag computed as a count, a value read from JSON / argparse)
            for t, a in runs:
                f = f + fmtstr(enc.dec_text(t), **{k: (1 if v is True else v) for k, v in enc.dec_atts(a).items()})
        elif len(runs) == 1:
            f = fmtstr(enc.dec_text(runs[0][0]), **enc.dec_atts(runs[0][1]))
        else:
            for t, a in runs:
                f = f + fmtstr(enc.dec_text(t), **enc.dec_atts(a))
        if enc.WARM:
            enc.warm(f, enc.WARM)          # the value was looked at (.s / width / len / hash / str) before it is rendered
        if inp.get("derive"):
            if inp.get("render_first"):
                str(f), len(f), f.s
                try:
                    f.width
                except Exception:  # noqa
                    pass
            d = inp["derive"]
            if d == "removeatts_bg":
                f = f.new_with_atts_removed("bg")
            elif d == "removeatts_fg_bold":
                f = f.new_with_atts_removed("fg", "bold")
            elif d == "withatts":
                f = f.copy_with_new_atts(fg=33, underline=True)
            elif d == "ljust0":
                f = f.ljust(0) if f.chunks else f
            elif d == "rjust0":
                f = f.rjust(len(f)) if f.chunks else f
            elif d == "slice":
                f = f[0:max(1, len(f) - 1)]
            elif d == "slice_tail":
                f = f[1:]
            elif d == "splice":
                f = f.splice("Z", min(1, len(f)), min(2, len(f)))
            elif d == "add":
                f = f + fmtstr("q", "blue")
            elif d == "rewrap":
                f = fmtstr(f, bold=False, bg="cyan")
            elif d == "newstr":
                f = f.copy_with_new_str("nw")
            elif d == "copy":
                f = f.copy()
        s1 = str(f)
        s2 = str(f)
        fe = enc.enc_fmtstr(f)
        if inp.get("ints"):
            # the value gives a character the style when the stored flag is 1 just as when it is True
            fe = [[enc.enc_text(c.s), enc.enc_atts({k: (True if v == 1 and k in enc.STYLE_ORDER else v) for k, v in c.atts.items()})] for c in f.chunks]
        return {"op": "str", "f": fe, "toks": enc.lex(s1), "toks2": enc.lex(s2), "derive": inp.get("derive", "")}

    def classify(self, ev):
        if any(any(x in (2, 3, 4, 5, 6, 7, 8) for x in r[1][:2]) or 2 in r[1][2:] for r in ev["f"]):
            return tuple((tuple(r[1]), len(r[0])) for r in ev["f"])
        return None

    def case_class(self, ev, v):
        return "runs=%d" % min(len(ev["f"]), 2) + (":derived-" + ev["derive"] if ev.get("derive") else "")

    def describe(self, ev, v):
        return f"str() of runs {ev['f']} lexes to {ev['toks']}"


CHECK = C01()

"""Which quick check catches which seeded change: runs every property's quick check against every seeded patch
(scratch copies outside /repo and /verif).  usage: matrix.py <out.json> [parallel [own [prefix]]]"""
import json
import os
import shutil
import subprocess
import sys
import tempfile
from concurrent.futures import ThreadPoolExecutor

VERIF = os.path.dirname(os.path.dirname(os.path.abspath(__file__)))
PROPS = [f"C{n:02d}" for n in range(1, 21)]


ONLY_OWN = False


def one(name):
    tmp = tempfile.mkdtemp(prefix="mx_")
    try:
        mut = os.path.join(tmp, "mut")
        shutil.copytree("/repo", mut, ignore=shutil.ignore_patterns(".git", "__pycache__"))
        subprocess.run(f"patch -p1 -s < {VERIF}/seeded/{name}/patch.diff", cwd=mut, shell=True, check=True)
        row = {}
        for pid in ([name[:3]] if ONLY_OWN else PROPS):
            env = dict(os.environ, VERIF_REPO=mut, TERM="xterm-256color", LC_ALL="C.UTF-8")
            p = subprocess.run(f"./check {pid} --tier quick", cwd=VERIF, env=env, shell=True, capture_output=True, text=True, timeout=1800)
            row[pid] = p.returncode
            if p.returncode not in (0, 1) or (ONLY_OWN and p.returncode != 1):
                os.makedirs("/tmp/matrix_out", exist_ok=True)
                open(f"/tmp/matrix_out/{name}_{pid}.txt", "w").write(p.stdout[-6000:] + p.stderr[-3000:])
        return name, row
    finally:
        shutil.rmtree(tmp, ignore_errors=True)


def main():
    out = sys.argv[1]
    par = int(sys.argv[2]) if len(sys.argv) > 2 else 2
    global ONLY_OWN
    names = sorted(d for d in os.listdir(os.path.join(VERIF, "seeded")) if os.path.exists(os.path.join(VERIF, "seeded", d, "patch.diff")))
    if len(sys.argv) > 3:      # matrix.py out.json par own [prefix]: each change against its own property's check only
        ONLY_OWN = True
        names = [n for n in names if n.startswith(sys.argv[4])] if len(sys.argv) > 4 else names
    res = {}
    with ThreadPoolExecutor(max_workers=par) as ex:
        for name, row in ex.map(one, names):
            res[name] = row
            json.dump(res, open(out, "w"), indent=1)
            print(name, [p for p, rc in row.items() if rc == 1], [p for p, rc in row.items() if rc not in (0, 1)], flush=True)


if __name__ == "__main__":
    main()

"""C16 - linesplit word-wraps without losing, reordering or restyling words."""
import enc
import fmtlib
from fmtlib import layouts
from purecheck import PureCheck

ALPHA = (120, 121, 32, 9, 10)  # x y space tab newline
ATTS = [fmtlib.PLAIN, fmtlib.RED, fmtlib.BOLD_ON_BLUE]


class C16(PureCheck):
    pid = "C16"
    subst_every = 6
    warm_every = 3
    rule = ("str and FmtStr inputs: layouts of <=2 runs of length 0..3 (quick, + sampled 3-run layouts with runs up to "
            "length 4) / all <=2 runs of length 0..3 + 60k sampled 3-run layouts + 40k sampled layouts with runs up to length 4 (thorough) over "
            "{x, y, space, tab, newline} x {plain, red, bold+on_blue} - formatting changing inside words and inside "
            "whitespace, empty runs with their own formatting inside/at the edge of whitespace and words, leading/trailing/multiple whitespace, non-ASCII whitespace (U+00A0, U+2028, U+3000, U+2003, 0x1C), no words at all - and columns 1..6 (plus seven astronomically large widths); plain str arguments carrying SGR sequences (judged as the parsed value); a plain prefix + a body whose text was read before; validated by TLC against "
            "the greedy reference wrap of Wrap.tla. distinct_nontrivial = distinct (layout, columns) with >=2 words or a "
            "word longer than the line")
    exhaustive = {"quick": False, "thorough": False}

    def design_runs(self, tier):
        cfg = ("SPECIFICATION Spec\nCONSTANT MaxRuns = 2\nCONSTANT MaxLen = %d\nINVARIANT LinesplitOk\nCHECK_DEADLOCK FALSE\n" % (2 if tier == "quick" else 3))
        return [dict(module="MC_StrMethods", cfg=cfg, workers=8, timeout=3000)]

    def inputs(self, tier, rng):
        if tier == "thorough":
            # every layout of <= 2 runs of length 0..3 (~220k) + sampled 3-run layouts + sampled runs of length 4
            pool = list(layouts(2, 3, alphabet=ALPHA, atts=ATTS))
            runs3 = [[list(t), list(a)] for t in fmtlib.texts_upto(ALPHA, 3) for a in ATTS]
            runs4 = [[list(t), list(a)] for t in fmtlib.texts_upto(ALPHA, 4, 1) for a in ATTS]
            for _ in range(60000):
                pool.append([rng.choice(runs3) for _ in range(3)])
            for _ in range(40000):
                pool.append([rng.choice(runs4) for _ in range(rng.choice([2, 3]))])
        else:
            pool = [l for k, l in enumerate(layouts(2, 3, alphabet=ALPHA, atts=ATTS)) if len(l) < 2 or k % 8 == 0]
            runs4 = [[list(t), list(a)] for t in fmtlib.texts_upto(ALPHA, 4, 1) for a in ATTS]
            for _ in range(1500):
                pool.append([rng.choice(runs4) for _ in range(rng.choice([2, 3]))])
        # empty runs (with their own formatting) inside and at the edges of whitespace and of words
        for a1 in ATTS:
            for a0 in ATTS:
                for left in ([120, 32], [120, 9], [32], [120, 121], [120, 32, 32]):
                    for right in ([32, 121], [121], [32, 32, 121, 32, 120], [10, 121]):
                        pool.append([[list(left), list(a1)], [[], list(a0)], [list(right), list(a1)]])
                        if a0 != a1:
                            pool.append([[list(left), list(a1)], [[], list(a0)], [list(right), list(a0)]])
        # whitespace outside ASCII (no-break space, line separator, ideographic space, information separator)
        ws = [160, 8232, 12288, 28, 8195]
        for k in range(200 if tier == "quick" else 4000):
            w1, w2 = rng.choice(ws), rng.choice(ws + [32])
            texts = [[120, 121, w1, 120], [120, w1, w2, 121, 121], [w1, 120, 121, 32, 121], [120, 121, w1], [w1, w2], [120, w1, 121, w2, 120, 121, 121]]
            t = texts[k % len(texts)]
            cut = rng.randrange(0, len(t) + 1)
            pool.append([[t[:cut], list(rng.choice(ATTS))], [t[cut:], list(rng.choice(ATTS))]])
        # a plain str that carries SGR sequences (str(some_fmtstr), coloured program output): linesplit parses it first,
        # the verdict is computed from the parsed value
        for k in range(150 if tier == "quick" else 3000):
            words = [rng.choice(["x", "xy", "yx", "xyx", " ", "  ", "\t", "\n"]) for _ in range(rng.randrange(2, 7))]
            raw = ""
            for w in words:
                code = rng.choice([None, None, "31", "1;44", "4"])
                raw += w if code is None else "\x1b[%sm%s\x1b[%sm" % (code, w, rng.choice(["0", "39", "", "0"]))
            for c in (1, 2, 3, 5, 7):
                yield {"op": "linesplit", "f": {"k": "raw", "v": enc.enc_text(raw)}, "cols": c}
        # a body whose text was read before, prefixed on the left with a plain str, then wrapped
        for k in range(200 if tier == "quick" else 4000):
            runs = [[[ord(ch) for ch in rng.choice(["xy", "x y", "yx ", " x", "xyx y", "y\tx"])], list(rng.choice(ATTS))] for _ in range(rng.choice([1, 2, 3]))]
            pre = rng.choice(["> ", "-- ", "x", " ", "yx y "])
            for c in (2, 3, 5):
                yield {"op": "linesplit", "f": {"k": "p", "v": runs, "pre": enc.enc_text(pre)}, "cols": c}
        # widths nobody wraps to, used as "never wrap, just normalise the whitespace"
        for hk in range(1, 8):
            for f in ([[[120, 32, 32, 121, 9, 120], list(ATTS[1])]], [[[120, 121], list(ATTS[0])], [[32, 10], list(ATTS[2])], [[121], list(ATTS[1])]], [], [[[], list(ATTS[0])]]):
                yield {"op": "linesplit", "f": {"k": "f", "v": f}, "cols": 100000, "huge": hk}
            yield {"op": "linesplit", "f": {"k": "s", "v": [[[120, 32, 121], list(fmtlib.PLAIN)]]}, "cols": 100000, "huge": hk}
        # one unbroken word that has to be cut into more than a thousand pieces
        for (n, c) in ((1100, 1), (2600, 2)):
            yield {"op": "linesplit", "f": {"k": "f", "v": [[[120] * n, list(ATTS[1])]]}, "cols": c}
            yield {"op": "linesplit", "f": {"k": "s", "v": [[[97, 32] + [121] * n, list(fmtlib.PLAIN)]]}, "cols": c}
        # texts longer than the usual buffer sizes (4096 / 8192 / 65536 characters), a word lying across each of them: judged
        # on scalar facts - the words' lengths, the lines' lengths, and the observation that the lines hold the words'
        # characters in order, single spaces between, under the one formatting (FmtJudge.JudgeLinesplitLong)
        for (unit, reps, tail, c) in (("ab ", 1365, "hello world", 20), ("ab ", 1365, "hello world", 7), ("x", 5000, "", 1000), ("x", 4097, " y", 4096),
                                      ("abc  de\n", 911, "fghij", 10), ("ab ", 2730, "hello world", 12), ("word ", 13107, "xy", 64)):
            if reps > 10000 and tier != "thorough":
                continue
            for k_ in ("s", "f"):
                yield {"op": "linesplitlong", "kind": k_, "text": enc.enc_text(unit), "reps": reps, "tail": enc.enc_text(tail), "cols": c, "atts": list(ATTS[1])}
        k = 0
        for f in pool:
            for c in range(1, 7):
                k += 1
                yield {"op": "linesplit", "f": {"k": "f", "v": f}, "cols": c}
            if len(f) == 1 and not any(f[0][1]):
                for c in (1, 2, 4):
                    yield {"op": "linesplit", "f": {"k": "s", "v": f}, "cols": c}

    def execute(self, inp):
        from curtsies.formatstring import linesplit
        ev = dict(inp)
        if inp["op"] == "linesplitlong":
            from curtsies.formatstring import FmtStr, Chunk
            text = enc.dec_text(inp["text"]) * inp["reps"] + enc.dec_text(inp["tail"])
            atts = enc.dec_atts(inp["atts"]) if inp["kind"] == "f" else {}
            x = FmtStr(Chunk(text, atts)) if inp["kind"] == "f" else text
            ev["ws"] = [len(w) for w in text.split()]
            try:
                lines = list(linesplit(x, inp["cols"]))
                ev["k"], ev["t"] = "ok", ""
                ev["lens"] = [len(l) for l in lines]
                ok = all(not l.s.startswith(" ") and not l.s.endswith(" ") and "  " not in l.s for l in lines)
                ok = ok and "".join(l.s for l in lines).replace(" ", "") == "".join(text.split())
                ok = ok and all(dict(ch.atts) == atts for l in lines for ch in l.chunks)
                ev["same"] = int(ok)
            except Exception as e:  # noqa
                ev["k"], ev["t"], ev["lens"], ev["same"] = "exc", enc.exc_name(e), [], 0
            del ev["text"], ev["tail"]
            return ev
        if inp["f"]["k"] == "p":
            # a value whose text was read before (an earlier wrap of it) gets a plain prefix on its left: "> " + body
            body = enc.build_fmtstr(inp["f"]["v"])
            body.s, linesplit(body, 3)
            x = enc.dec_text(inp["f"]["pre"]) + body
            ev["f"] = {"k": "f", "v": enc.enc_fmtstr(x)}
        elif inp["f"]["k"] == "raw":
            from curtsies.formatstring import FmtStr
            x = enc.dec_text(inp["f"]["v"])
            ev["rawf"] = inp["f"]["v"]
            ev["f"] = {"k": "f", "v": enc.enc_fmtstr(FmtStr.from_str(x))}
        else:
            x = enc.build_value(inp["f"])
        cols = inp["cols"]
        if inp.get("huge"):
            # a "never wrap" width: any width above the length of the text means the same, so the specification is handed
            # 100000 while the code gets the real number (TLC's integers are 32-bit)
            import sys
            cols = [2 ** 31 - 1, 2 ** 31, 2 ** 32 - 1, 2 ** 32, sys.maxsize, 10 ** 30, 2 ** 63][inp["huge"] - 1]
            ev["cols"], ev["cols_real"] = 100000, str(cols)
        ev["res"] = fmtlib.enc_list_res(lambda: enc.call(linesplit, x, cols))
        return ev

    def _words(self, ev):
        s = "".join(chr(c) for t, _ in ev["f"]["v"] for c in t)
        return s.split()

    def classify(self, ev):
        if ev["op"] == "linesplitlong":
            return ("long", ev["kind"], ev["reps"], ev["cols"], len(ev["ws"]))
        w = self._words(ev)
        if len(w) >= 2 or any(len(x) > ev["cols"] for x in w):
            return (str(ev["f"]), ev["cols"])
        return None

    def case_class(self, ev, v):
        if ev["op"] == "linesplitlong":
            return "very-long-text"
        return "no-words" if not self._words(ev) else "words"

    def describe(self, ev, v):
        return str({k: ev[k] for k in ev})


CHECK = C16()

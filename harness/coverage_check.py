"""./check coverage - runs every design model (quick constants) with TLC's -coverage 1 and reports, per named
action, how many states it produced; an action that was never taken means the invariants checked on that model
were never exercised on it (vacuity)."""
import importlib
import json
import re
import sys

import common

ACTION_RE = re.compile(r"^<(\w+) line (\d+), col \d+ to line \d+, col \d+ of module (\w+)>: (\d+):(\d+)", re.M)


def run(args=None):
    common.import_repo()
    bad = 0
    summary = {}
    for n in range(1, 21):
        pid = f"C{n:02d}"
        chk = importlib.import_module(f"p_c{n:02d}").CHECK
        if hasattr(chk, "prepare"):
            try:
                chk.prepare("quick")
            except Exception:  # noqa
                pass
        for r in chk.design_runs("quick"):
            wd = common.workdir("coverage")
            out = common.run_tlc(r["module"], r["cfg"], wd / r["module"], env=r.get("env"), workers=r.get("workers", 4),
                                 timeout=r.get("timeout", 900), coverage=True)
            acts = {}
            for m in ACTION_RE.finditer(out["out"]):
                name, line, mod, distinct, total = m.group(1), int(m.group(2)), m.group(3), int(m.group(4)), int(m.group(5))
                key = f"{mod}.{name}"
                if key not in acts or total > acts[key][1]:
                    acts[key] = (distinct, total)
            never = sorted(k for k, (d, t) in acts.items() if t == 0)
            summary[f"{pid}:{r['module']}"] = {"distinct_states": out["distinct"], "actions": {k: list(v) for k, v in sorted(acts.items())},
                                               "never_taken": never}
            line = f"{pid} {r['module']}: {out['distinct']} distinct states, {len(acts)} actions, never taken: {never or 'none'}"
            print(line)
            if never:
                bad += 1
            common.cleanup("coverage")
    (common.VERIF / "spec" / "coverage.json").write_text(json.dumps(summary, indent=1, sort_keys=True) + "\n")
    print(f"coverage: {len(summary)} design models, {bad} with an action never taken")
    return 0 if bad == 0 else 1


if __name__ == "__main__":
    sys.exit(run())

"""Confirm a whole round of seeded changes.  usage: seedround.py <round.json> [names...]
round.json: {"<dir name>": ["<what the change does>", "<what it needs to manifest>"], ...}; each change lives in
/tmp/wt/<dir name>/{patch.diff, demo.py} (a scratch worktree written by a sub-agent).  Runs harness/seedcheck.py for
each (5 at a time) and prints one line per change, with its name."""
import json
import os
import subprocess
import sys
from concurrent.futures import ThreadPoolExecutor

VERIF = os.path.dirname(os.path.dirname(os.path.abspath(__file__)))
AUTHOR = "independent sub-agent given only the property text and a scratch worktree"


def main():
    spec = json.load(open(sys.argv[1]))
    names = sys.argv[2:] or sorted(spec)
    # a change counts as caught only if the check is quiet on the unchanged tree: run each property's quick check on
    # /repo first - with the environment sweep - and refuse to judge changes of a property whose check alarms there
    def clean(pid):
        p = subprocess.run(["./check", pid], cwd=VERIF, capture_output=True, text=True)
        return pid, p.returncode, [l for l in p.stdout.splitlines() if l.startswith("VIOLATION")][:2]
    noisy = set()
    with ThreadPoolExecutor(4) as ex:
        for pid, rc, lines in ex.map(clean, sorted({n[:3] for n in names})):
            if rc != 0:
                noisy.add(pid)
                print(f"CLEAN-TREE-ALARM {pid} rc={rc} {lines}", flush=True)
    names = [n for n in names if n[:3] not in noisy]

    def one(n):
        what, needs = spec[n]
        p = subprocess.run(["/venv/bin/python", os.path.join(VERIF, "harness", "seedcheck.py"), n[:3], "/tmp/wt/" + n, n, needs],
                           capture_output=True, text=True)
        line = [l for l in p.stdout.splitlines() if l.startswith("{")]
        mp = os.path.join(VERIF, "seeded", n, "meta.json")
        if os.path.exists(mp):
            m = json.load(open(mp))
            m["what"], m["author"] = what, AUTHOR
            with open(mp, "w") as f:
                json.dump(m, f, indent=1)
                f.write("\n")
            rc = m["ran"][-1].get("rc")
        else:
            rc = None
        return n, (line[-1] if line else (p.stdout[-300:] + p.stderr[-300:])), rc
    with ThreadPoolExecutor(5) as ex:
        for n, l, rc in ex.map(one, names):
            print(n, l, "rc=%s" % rc, flush=True)


if __name__ == "__main__":
    main()

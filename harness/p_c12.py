"""C12 - leaving any curtsies context restores terminal, tty and signal state."""
import fcntl
import json
import os
import signal
import sys
import termios
import threading
import time

import common
import enc
import winlib
from tracecheck import TraceCheck, parse_behaviours


class Scenario:
    """one run on fresh ptys; records a snapshot after every step"""

    def __init__(self, hist):
        self.hist = hist
        self.out = winlib.QueryStream(5, 10)
        self.out.pos = (0, 0)
        self.slave = self.out.in_slave
        self.in_stream = self.out.in_stream
        self.tty_ids = {}
        self.sig_ids = {}
        self.wake_ids = {-1: 0}
        self.main = threading.current_thread() is threading.main_thread()
        self.base_fds = None

    def snap(self):
        tty = json.dumps(termios.tcgetattr(self.slave), default=lambda b: list(b))
        tid = self.tty_ids.setdefault(tty, len(self.tty_ids))
        # every file status flag F_SETFL can change (0 / 1 when only O_NONBLOCK is involved, as before)
        fl = fcntl.fcntl(self.slave, fcntl.F_GETFL)
        nb = int(bool(fl & os.O_NONBLOCK)) + 2 * (fl & (os.O_APPEND | getattr(os, "O_ASYNC", 0) | getattr(os, "O_NOATIME", 0)))
        h = signal.getsignal(signal.SIGINT)
        sid = self.sig_ids.setdefault(id(h), len(self.sig_ids))
        wake = 0
        if self.main:
            old = signal.set_wakeup_fd(-1)
            if old != -1:
                signal.set_wakeup_fd(old, warn_on_full_buffer=False)
            wake = self.wake_ids.setdefault(old, len(self.wake_ids))
        # descriptors open now that were not open when the history began (the listing's own descriptor is gone by
        # the time fstat looks at it).  Counting *new* descriptors keeps the measure independent of old harness
        # objects being finalised by the garbage collector in the middle of a history.
        cur = set()
        for name in os.listdir("/proc/self/fd"):
            try:
                os.fstat(int(name))
                cur.add(int(name))
            except OSError:
                pass
        if self.base_fds is None:
            self.base_fds = cur
        mask = signal.pthread_sigmask(signal.SIG_BLOCK, [])
        mid = sum(1 << k for k, sg in enumerate((signal.SIGINT, signal.SIGWINCH, signal.SIGTSTP, signal.SIGCONT)) if sg in mask)
        return {"tty": tid, "nb": nb, "sig": sid, "wake": wake, "fds": len(cur - self.base_fds), "mask": mid}

    def run(self):
        from curtsies import Input, FullscreenWindow, CursorAwareWindow, Cbreak, Nonblocking, Termmode
        from curtsies import events as cevents
        from curtsies.formatstring import fmtstr
        hist = self.hist
        init = hist[0]
        if init.get("nb"):
            fl = fcntl.fcntl(self.slave, fcntl.F_GETFL)
            fcntl.fcntl(self.slave, fcntl.F_SETFL, fl | os.O_NONBLOCK)
        if init.get("fl0"):
            # other file status flags already set on the stream: O_ASYNC, O_NOATIME, O_APPEND
            extra = [getattr(os, "O_ASYNC", 0), getattr(os, "O_NOATIME", 0), os.O_APPEND, getattr(os, "O_ASYNC", 0) | os.O_APPEND][init["fl0"] - 1]
            fl = fcntl.fcntl(self.slave, fcntl.F_GETFL)
            try:
                fcntl.fcntl(self.slave, fcntl.F_SETFL, fl | extra)
            except OSError:
                pass
        if init.get("rawish"):
            a = termios.tcgetattr(self.slave)
            a[3] |= termios.ECHO | termios.ICANON
            a[6][termios.VSTOP] = 19
            termios.tcsetattr(self.slave, termios.TCSANOW, a)
        ev = []
        tr = {"h": 5, "w": 10, "main": int(self.main), "snap0": self.snap(), "ev": ev}
        stack = []

        class Ev(cevents.Event):
            pass

        class SEv(cevents.ScheduledEvent):
            pass
        given_attrs = termios.tcgetattr(self.slave)
        exited = {}      # kind -> last object of that kind that was left (for re-entering the same object)
        for st in hist[1:]:
            rec = {"k": st["k"], "exc": "", "toks": [], "kind": st.get("kind", ""), "name": st.get("name", "")}
            try:
                def body():
                    if st["k"] == "env":
                        # the application itself changes the terminal between two uses of a context object
                        if st["what"] == "sigh":
                            # the application installs a SIGINT handler of its own inside the context
                            signal.signal(signal.SIGINT, _app_sigint)
                        elif st["what"] == "echo":
                            a = termios.tcgetattr(self.slave)
                            a[3] ^= termios.ECHO
                            termios.tcsetattr(self.slave, termios.TCSANOW, a)
                        else:
                            fl = fcntl.fcntl(self.slave, fcntl.F_GETFL)
                            fcntl.fcntl(self.slave, fcntl.F_SETFL, fl ^ os.O_NONBLOCK)
                    elif st["k"] in ("enter", "build"):
                        kind = st["kind"]
                        if st.get("reuse") and kind in exited:
                            obj = exited[kind]
                        elif kind == "Input":
                            obj = Input(in_stream=self.in_stream, sigint_event=bool(st["sigint"]),
                                        disable_terminal_start_stop=bool(st["nostart"]))
                        elif kind == "Fullscreen":
                            obj = FullscreenWindow(out_stream=self.out, hide_cursor=bool(st["hide"]))
                        elif kind == "CursorAware":
                            obj = CursorAwareWindow(out_stream=self.out, in_stream=self.in_stream, hide_cursor=bool(st["hide"]),
                                                    keep_last_line=bool(st["keep"]))
                        elif kind == "Back":
                            # the Termmode that the enclosing Cbreak's __enter__ handed back ("with Cbreak(s) as normal:
                            # with normal: ..."): back to the mode before the Cbreak, for a while
                            obj = self.back if getattr(self, "back", None) is not None else Termmode(self.in_stream, given_attrs)
                        elif kind == "Cbreak":
                            obj = Cbreak(self.in_stream)
                        elif kind == "Nonblocking":
                            obj = Nonblocking(self.in_stream)
                        else:
                            # the attributes a Termmode is asked to set: what tcgetattr reports (nothing changes), the same
                            # with ECHO / ICANON off, or that with control characters written as ints - termios accepts
                            # ints and 1-byte bytes alike and reports bytes back
                            attrs = termios.tcgetattr(self.slave)
                            tm = st.get("tm", 0)
                            if tm >= 1:
                                attrs[3] &= ~(termios.ECHO | termios.ICANON)
                            if tm == 2:
                                attrs[6][termios.VSTOP] = 0
                                attrs[6][termios.VINTR] = 3
                                attrs[6][termios.VEOF] = 4
                            obj = Termmode(self.in_stream, attrs if tm else given_attrs)
                        if st["k"] == "build":
                            exited[kind] = obj        # constructed now, entered by a later step (reuse=1)
                            return
                        n0 = len(self.out.replies)
                        entered = obj.__enter__()
                        if kind == "Cbreak":
                            self.back = entered
                        stack.append((kind, obj))
                        rec["reply"] = self.out.replies[-1] if len(self.out.replies) > n0 else [0, 0]
                    elif st["k"] == "op":
                        kind, obj = stack[-1 - st.get("on", 0)]     # on=1: the operation is asked of the enclosing context object
                        name = st["name"]
                        if name == "render":
                            # terminal is 5 rows: small / exactly full / taller than the screen (scrolls; with the
                            # cursor on the first line that line leaves the screen) / empty
                            shape = st.get("shape", "small")
                            if shape == "badrow":
                                # a render that raises part-way (a row that is no string), the exception leaves the contexts
                                obj.render_to_terminal([fmtstr("ok", "red"), "y", None, "z"], (0, 0))
                            elif shape.startswith("cut"):
                                # a foreign exception lands at the n-th line executed inside render_to_terminal and
                                # whatever it calls in the library
                                _render_cut(obj, int(shape[3:]), [fmtstr("ab", "red"), "c", fmtstr("d", "bold")])
                            elif shape == "small":
                                obj.render_to_terminal([fmtstr("hi", "red"), "x"], (1, 1))
                            elif shape == "full" or kind == "Fullscreen":
                                obj.render_to_terminal([fmtstr("r%d" % k, "blue") for k in range(5)], (4, 1))
                            elif shape == "tall":
                                obj.render_to_terminal(["t%d" % k for k in range(8)], (0, 0))
                            else:
                                obj.render_to_terminal([], (0, 0))
                        elif name == "request":
                            obj.send(0)
                        elif name == "request_key":
                            os.write(self.out.in_master, b"k")
                            rec["got"] = type(obj.send(0)).__name__
                        elif name == "request_paste":
                            # a burst above the paste threshold: the paste loop reads again and hits BlockingIOError
                            os.write(self.out.in_master, b"0123456789abcdefghij")
                            rec["got"] = type(obj.send(0)).__name__
                            obj.send(0)
                        elif name == "request_big":
                            # a burst that fills the Input's read buffer exactly (and one that overfills it): the read loop
                            # reads again
                            os.write(self.out.in_master, b"x" * st.get("size", 1024))
                            rec["got"] = type(obj.send(0)).__name__
                            for _ in range(3):
                                obj.send(0)
                        elif name == "unget12":
                            # a dozen bytes handed back to the Input (what a window read past a cursor report), one key taken:
                            # the context is then left with the rest still buffered
                            obj.unget_bytes(b"0123456789ab" if st.get("text", 1) else b"\x1b[1;10\x1b[1;10\xe1y")
                            rec["got"] = type(obj.send(0)).__name__
                        elif name == "trigger":
                            cb = obj.threadsafe_event_trigger(Ev)
                            cb()
                            obj.send(0)
                        elif name == "sched":
                            cb = obj.scheduled_event_trigger(SEv)
                            cb(time.time() - 1)
                            obj.send(0)
                        elif name == "stray_sigint":
                            # Ctrl-C between two requests: the Input's handler records it; the body never asks again
                            os.kill(os.getpid(), signal.SIGINT)
                            for _ in range(20):
                                pass
                        elif name == "blocked_sigint":
                            # SIGINT from another thread at an arbitrary moment of a blocked request
                            t = threading.Timer(st.get("delay", 0.03), lambda: os.kill(os.getpid(), signal.SIGINT))
                            t.start()
                            try:
                                r = obj.send(1.0)
                                rec["got"] = type(r).__name__
                            finally:
                                t.join()
                    elif st["k"] in ("exit", "raise"):
                        kind, obj = stack.pop()
                        exited[kind] = obj
                        if st["k"] == "raise":
                            # the class of the exception that leaves the context is part of the scenario
                            cls = {"OSError": FileNotFoundError, "BrokenPipe": BrokenPipeError, "KeyboardInterrupt": KeyboardInterrupt,
                                   "SystemExit": SystemExit, "GeneratorExit": GeneratorExit, "ValueError": ValueError,
                                   "Blocking": BlockingIOError}.get(st.get("cls", ""), RuntimeError)
                            try:
                                raise cls("boom")
                            except BaseException:
                                obj.__exit__(*sys.exc_info())
                        else:
                            obj.__exit__(None, None, None)
                if st.get("thread") and self.main:
                    self.main = False
                    try:
                        run_in_thread(body)
                    finally:
                        self.main = True
                else:
                    body()
            except KeyboardInterrupt:
                rec["exc"] = "KeyboardInterrupt"
            except Exception as e:  # noqa
                rec["exc"] = enc.exc_name(e)
            rec["toks"] = enc.lex(self.out.take())
            if st["k"] == "enter" and st["kind"] == "CursorAware":
                # the environment: the cursor is at the top-left corner when the window is entered
                # (that is the position the harness reports to the cursor query)
                rec["toks"] = [["c", "", [1, 1], "", "H"]] + rec["toks"]
            rec["snap"] = self.snap()
            ev.append(rec)
            if rec["exc"] and st["k"] == "op":
                # the exception leaves every context, innermost first (what nested `with` statements do)
                while stack:
                    kind, obj = stack.pop()
                    r2 = {"k": "raise", "exc": "", "toks": [], "kind": kind, "name": ""}
                    try:
                        try:
                            raise RuntimeError("unwinding")
                        except RuntimeError:
                            obj.__exit__(*sys.exc_info())
                    except Exception as e:  # noqa
                        r2["exc"] = enc.exc_name(e)
                    r2["toks"] = enc.lex(self.out.take())
                    r2["snap"] = self.snap()
                    ev.append(r2)
                break
        # contexts still open at the end of the history are left normally
        while stack:
            kind, obj = stack.pop()
            r3 = {"k": "exit", "exc": "", "toks": [], "kind": kind, "name": ""}
            try:
                obj.__exit__(None, None, None)
            except Exception as e:  # noqa
                r3["exc"] = enc.exc_name(e)
            r3["toks"] = enc.lex(self.out.take())
            r3["snap"] = self.snap()
            ev.append(r3)
        return tr

    def close(self):
        self.out.close()


class _Cut(Exception):
    pass


def _render_cut(win, n, array):
    """win.render_to_terminal(array) with _Cut raised at the n-th line event in library code below the call."""
    count = [0]

    def tracer(frame, event, arg):
        fn = frame.f_code.co_filename
        if "curtsies" not in fn:
            return None
        if event == "line":
            count[0] += 1
            if count[0] == n:
                sys.settrace(None)
                raise _Cut("foreign exception inside a render")
        return tracer
    old = sys.gettrace()
    sys.settrace(tracer)
    try:
        win.render_to_terminal(array, (0, 0))
    finally:
        sys.settrace(old)


def _user_handler(signum, frame):
    pass


def run_in_thread(fn):
    box = {}

    def target():
        try:
            box["r"] = fn()
        except BaseException as e:  # noqa
            box["e"] = e
    t = threading.Thread(target=target)
    t.start()
    t.join()
    if "e" in box:
        raise box["e"]
    return box["r"]


def _app_sigint(signum, frame):
    """the application's own SIGINT handler (installed inside a context by some scenarios)"""


class C12(TraceCheck):
    pid = "C12"
    # blessed (third party) switches every terminal capability off when NO_COLOR is set, on the pinned tree as well:
    # not a variable whose effect says anything about a change to curtsies
    sweep_exclude = ("NO_COLOR",)
    module = "CtxTrace"
    rule = ("scenarios on real ptys: nestings of <=3 contexts among Input (sigint_event, disable_terminal_start_stop), "
            "FullscreenWindow (hide_cursor), CursorAwareWindow (hide_cursor, keep_last_line), Cbreak, Nonblocking, Termmode (asked to set what tcgetattr reports / ECHO+ICANON off / that with control characters written as ints); "
            "bodies of renders, requests, thread-safe/scheduled triggers; normal exit or an exception after every prefix; renders that raise part-way (a row that is no string; a foreign exception landing at the n-th line executed inside render_to_terminal), the exception then leaving the contexts; "
            "an Input left with keypresses still buffered; two Inputs open with the outer one asked; a SIGINT handler of the application's own installed inside an Input; repeated enter/exit; a real SIGINT sent from another thread during a blocked request (KeyboardInterrupt with "
            "sigint_event off, SigIntEvent with it on); main and non-main thread; initial O_NONBLOCK off/on, O_ASYNC / O_NOATIME / O_APPEND preset, and two initial "
            "tty settings. After every step: termios attributes, O_NONBLOCK, SIGINT handler, signal wake-up fd, number of open "
            "fds and the terminal tokens. Sources: TLC behaviours from Ctx.tla (exhaustive to depth 4 + simulation) + "
            "hand-written scenario families. distinct_nontrivial = distinct (stack of kinds/options, step) pairs")
    assumptions = ("at most one window context at a time", "a KeyboardInterrupt landing inside __enter__/__exit__ is out of scope",
                   "process-global state is reset by the harness between scenarios")
    exhaustive = {"quick": False, "thorough": False}

    def prepare(self, tier):
        # scenarios with O_ASYNC preset make the kernel send SIGIO when input arrives: the harness process ignores it
        signal.signal(signal.SIGIO, signal.SIG_IGN)

    def design_runs(self, tier):
        runs = []
        for main in ("TRUE", "FALSE"):
            cfg = ("SPECIFICATION Spec\nCONSTANT MaxDepth = 3\nCONSTANT MaxSteps = %d\nCONSTANT Emit = FALSE\nCONSTANT MainThread = %s\n"
                   "VIEW view\nINVARIANT Restored\nINVARIANT AllLeftMeansInitial\nCHECK_DEADLOCK FALSE\n" % (6 if tier == "quick" else 7, main))
            runs.append(dict(module="Ctx", cfg=cfg, workers=6, timeout=3000))
        return runs

    def tlc_histories(self, tier, wd):
        hists = []
        stats = {"states": 0, "transitions": 0}
        num = 500 if tier == "quick" else 12000
        for main in ("TRUE", "FALSE"):
            cfg = ("SPECIFICATION Spec\nCONSTANT MaxDepth = 3\nCONSTANT MaxSteps = 8\nCONSTANT Emit = TRUE\nCONSTANT MainThread = %s\n"
                   "INVARIANT EmitBehaviour\nCHECK_DEADLOCK FALSE\n" % main)
            r = common.run_tlc("Ctx", cfg, wd / f"gen{main}", workers=1, timeout=900, simulate=f"num={num // 2}", depth=9,
                               extra=["-seed", str(common.seed() + 13)])
            hists += parse_behaviours(r["out"])[: num // 2]
            stats["states"] += r["generated"]
            stats["transitions"] += r["generated"]
        return hists, stats

    def histories(self, tier, rng):
        def E(kind, **o):
            d = {"k": "enter", "kind": kind, "sigint": 0, "nostart": 0, "hide": 0, "keep": 0}
            d.update(o)
            return d

        def OP(name, **o):
            d = {"k": "op", "name": name}
            d.update(o)
            return d
        X, R = {"k": "exit"}, {"k": "raise"}
        for main in (1, 0):
            for nb in (0, 1):
                init = {"k": "init", "nb": nb, "main": main, "rawish": nb}
                # every single context, every option combination, every crash point of a 3-operation body
                for sig in (0, 1):
                    for ns in (0, 1):
                        body = [OP("request"), OP("trigger"), OP("request_paste"), OP("sched"), OP("request_key")]
                        for cut in range(len(body) + 1):
                            for end in (X, R):
                                yield [init, E("Input", sigint=sig, nostart=ns)] + body[:cut] + [end]
                for hide in (0, 1):
                    for cut in range(3):
                        for end in (X, R):
                            yield [init, E("Fullscreen", hide=hide)] + [OP("render")] * cut + [end]
                            for keep in (0, 1):
                                yield [init, E("CursorAware", hide=hide, keep=keep)] + [OP("render")] * cut + [end]
                    for shapes in (("full",), ("tall",), ("empty",), ("small", "tall"), ("tall", "small"), ("tall", "tall")):
                        for end in (X, R):
                            yield [init, E("Fullscreen", hide=hide)] + [OP("render", shape=x) for x in shapes] + [end]
                            yield [init, E("CursorAware", hide=hide, keep=hide)] + [OP("render", shape=x) for x in shapes] + [end]
                    # renders that raise part-way: a row that is no string, a foreign exception at the n-th line
                    for shape in ["badrow"] + ["cut%d" % n for n in ((2, 9, 23, 40, 71) if main else (5, 31))]:
                        for first in ((), ("small",)):
                            yield [init, E("Fullscreen", hide=hide)] + [OP("render", shape=x) for x in first] + [OP("render", shape=shape), X]
                            yield [init, E("CursorAware", hide=hide, keep=hide)] + [OP("render", shape=x) for x in first] + [OP("render", shape=shape), X]
                for kind in ("Cbreak", "Nonblocking", "Termmode"):
                    for end in (X, R):
                        yield [init, E(kind), end]
                for size in (1023, 1024, 1025, 2048):
                    for end in (X, R):
                        yield [init, E("Input", sigint=1), OP("request_big", size=size), OP("request"), end]
                # back to the mode before the Cbreak through the Termmode it returned, and a cbreak context inside that
                for end in (X, R):
                    yield [init, E("Cbreak"), E("Back"), end, X]
                    yield [init, E("Cbreak"), E("Back"), E("Cbreak"), end, X, X]
                    yield [init, E("Cbreak"), E("Back"), E("CursorAware", hide=1), OP("render"), end, X, X]
                    yield [init, E("Cbreak"), E("Back"), E("Input", nostart=1), OP("request_key"), end, X, X]
                    yield [init, E("Cbreak"), E("Cbreak"), E("Back"), E("Cbreak"), end, X, X, X]
                for tm in (1, 2):
                    for end in (X, R):
                        yield [init, E("Termmode", tm=tm), end]
                        yield [init, E("Termmode", tm=tm), E("Cbreak"), X, end]
                        yield [init, E("Cbreak"), E("Termmode", tm=tm), end, X]
                        yield [init, E("Termmode", tm=tm), E("Input", nostart=1), OP("request_key"), X, end]
                # an Input left while keypresses are still buffered in it
                for sig in (0, 1):
                    for end in (X, R):
                        yield [init, E("Input", sigint=sig), OP("unget12"), end]
                        yield [init, E("Input", sigint=sig, nostart=1), OP("request_key"), OP("unget12", text=0), end]
                    yield [init, E("Cbreak"), E("Input", sigint=sig), OP("unget12"), X, X]
                    yield [init, E("Input", sigint=sig), OP("unget12"), X, E("Input", sigint=sig, reuse=1), OP("request"), OP("request"), X]
                # two Inputs open at once and the OUTER one is asked; a SIGINT handler of the application's own installed
                # inside an Input's context, then requests
                for so in (0, 1):
                    for si in (0, 1):
                        for end in (X, R):
                            yield [init, E("Input", sigint=so), E("Input", sigint=si), OP("request", on=1), end, end]
                            yield [init, E("Input", sigint=so), E("Input", sigint=si, nostart=1), OP("request_key"), OP("request_key", on=1), OP("request"), end, X]
                    yield [init, E("Input", sigint=so), E("Cbreak"), OP("request", on=1), X, OP("request"), X]
                if main:
                    SIGH = {"k": "env", "what": "sigh"}
                    for end in (X, R):
                        yield [init, E("Input", sigint=1), SIGH, OP("request"), end]
                        yield [init, E("Input", sigint=1), OP("request"), SIGH, OP("request_key"), OP("request"), end]
                        yield [init, E("Cbreak"), E("Input", sigint=1, nostart=1), SIGH, OP("trigger"), end, X]
                # nested and repeated use
                for sig in (0, 1):
                    yield [init, E("Input", sigint=sig), E("Input", sigint=1 - sig), OP("request"), X, OP("request"), X]
                    yield [init, E("Input", sigint=sig), E("Input", sigint=sig), OP("trigger"), R, R]
                    yield [init, E("Fullscreen", hide=1), E("Input", sigint=sig), OP("request"), X, OP("render"), X]
                    yield [init, E("Input", sigint=sig), OP("request_paste"), OP("request_key"), R]
                    yield [init, E("Nonblocking"), E("Input", sigint=sig), OP("request_paste"), X, X]
                    yield [init, E("CursorAware", hide=1), E("Input", sigint=sig), OP("request"), R, R]
                    yield [init, E("Input", sigint=sig), OP("request"), X, E("Input", sigint=sig), OP("request"), X,
                           E("Input", sigint=sig), OP("trigger"), X]
                yield [init, E("Nonblocking"), E("Input"), OP("request"), X, X]
                if main:
                    # a SIGINT that the Input's own handler recorded between requests and that no request returned
                    for end in (X, R):
                        yield [init, E("Input", sigint=1), OP("request"), OP("stray_sigint"), end]
                        yield [init, E("Input", sigint=1), OP("stray_sigint"), OP("stray_sigint"), OP("request"), end]
                        yield [init, E("Cbreak"), E("Input", sigint=1, nostart=1), OP("request_key"), OP("stray_sigint"), end, X]
                # other file status flags set on the stream before anything is entered
                for f0 in (1, 2, 3, 4):
                    i2 = dict(init, fl0=f0)
                    for end in (X, R):
                        yield [i2, E("Input"), OP("request_key"), OP("request"), end]
                        yield [i2, E("Nonblocking"), end]
                    yield [i2, E("Input", sigint=1, nostart=1), OP("request_paste"), X]
                    yield [i2, E("CursorAware", hide=1), OP("render"), X]
                    yield [i2, E("Cbreak"), E("Nonblocking"), X, X]
                # the calling thread has SIGINT (and SIGWINCH) blocked before anything is entered
                for m0 in (1, 2):
                    im = dict(init, mask0=m0)
                    for end in (X, R):
                        yield [im, E("Input", sigint=1), OP("request"), end]
                        yield [im, E("Input"), OP("trigger"), end]
                        yield [im, E("CursorAware", hide=1), OP("render"), end]
                        yield [im, E("Fullscreen"), OP("render"), end]
                        yield [im, E("Cbreak"), E("Input", sigint=1, nostart=1), OP("request_key"), end, X]
                # every context left through exceptions of different classes
                for cls in ("OSError", "BrokenPipe", "Blocking", "KeyboardInterrupt", "SystemExit", "GeneratorExit", "ValueError"):
                    RX = dict(R, cls=cls)
                    yield [init, E("Input", sigint=1, nostart=1), OP("request_key"), RX]
                    yield [init, E("Input"), RX]
                    yield [init, E("Fullscreen", hide=1), OP("render"), RX]
                    yield [init, E("CursorAware", hide=1), OP("render"), RX]
                    yield [init, E("Cbreak"), RX]
                    yield [init, E("Nonblocking"), RX]
                    yield [init, E("CursorAware"), E("Input", sigint=1), OP("request"), RX, RX]
                # a context object constructed first and entered later, or used again, after the terminal's
                # attributes / flags were changed in between (by the application or by another context)
                def B(kind, **o):
                    return dict(E(kind, **o), k="build")
                for kind in ("Cbreak", "Nonblocking", "Termmode", "Input", "Fullscreen", "CursorAware"):
                    body1 = [OP("request_key")] if kind == "Input" else [OP("render")] if kind in ("Fullscreen", "CursorAware") else []
                    for what in ("echo", "nb"):
                        ENV = {"k": "env", "what": what}
                        yield [init, B(kind), ENV, E(kind, reuse=1)] + body1 + [X]
                        if kind not in ("Fullscreen", "CursorAware"):      # a window object cannot be entered twice
                            yield [init, E(kind)] + body1 + [X, ENV, E(kind, reuse=1)] + body1 + [R]
                    if kind != "Input":
                        yield [init, B(kind), E("Input", nostart=1), E(kind, reuse=1)] + body1 + [X, OP("request"), X]
                # the SAME object entered again after having been left (Input documents this use)
                for kind in ("Input", "Cbreak", "Nonblocking", "Termmode"):
                    yield [init, E(kind), X, E(kind, reuse=1), X, E(kind, reuse=1), R]
                yield [init, E("Input", sigint=1), OP("request_key"), X, E("Input", sigint=1, reuse=1), OP("request"), X]
                if main:
                    # ... and the same object used first in the main thread, then in another thread (and vice versa)
                    T = {"thread": 1}
                    for sig in (0, 1):
                        yield [init, E("Input", sigint=sig), X, dict(E("Input", sigint=sig, reuse=1), **T), dict(X, **T)]
                        yield [init, dict(E("Input", sigint=sig), **T), dict(X, **T), E("Input", sigint=sig, reuse=1), X]
                        yield [init, E("Input", sigint=sig, nostart=1), OP("request"), R, dict(E("Input", reuse=1), **T), dict(R, **T)]
                yield [init, E("Cbreak"), E("Nonblocking"), E("Termmode"), R, R, R]
            if main:
                for sig in (0, 1):
                    for delay in (0.0, 0.01, 0.05):
                        init = {"k": "init", "nb": 0, "main": 1}
                        yield [init, E("Input", sigint=sig), OP("blocked_sigint", delay=delay), X]
                        yield [init, E("Fullscreen", hide=1), E("Input", sigint=sig), OP("blocked_sigint", delay=delay), X, X]

    _count = 0

    def run_history(self, hist):
        main = bool(hist[0].get("main", 1))
        default_handler = signal.default_int_handler
        # the SIGINT disposition in force before anything is entered: Python's default handler, SIG_DFL,
        # SIG_IGN or an application handler (never SIG_DFL/SIG_IGN when the scenario sends a real SIGINT)
        real_sigint = any(st.get("name") in ("blocked_sigint", "stray_sigint") for st in hist)
        C12._count += 1
        choice = hist[0].get("sig0") or ["default", "dfl", "user", "ign"][C12._count % 4]
        if real_sigint or not main:
            choice = "default"
        initial = {"default": default_handler, "dfl": signal.SIG_DFL, "ign": signal.SIG_IGN,
                   "user": _user_handler}[choice]
        hist[0]["sig0"] = choice
        signal.signal(signal.SIGINT, initial)
        signal.set_wakeup_fd(-1)
        import gc
        if C12._count == 1:
            gc.collect()
            gc.freeze()   # the generated histories etc. are permanent: later collections only look at what is new
        gc.collect()      # finalise what earlier histories left behind before the descriptor baseline is taken

        def go():
            # the calling thread's signal mask before anything is entered: empty, or SIGINT / SIGWINCH already blocked
            # (a worker started with signals blocked, an application collecting signals with sigwait)
            blocked = {1: [signal.SIGINT], 2: [signal.SIGINT, signal.SIGWINCH]}.get(hist[0].get("mask0", 0), [])
            old_mask = signal.pthread_sigmask(signal.SIG_BLOCK, blocked) if blocked else None
            sc = Scenario(hist)
            try:
                return sc.run()
            finally:
                sc.close()
                if old_mask is not None:
                    signal.pthread_sigmask(signal.SIG_SETMASK, old_mask)
        try:
            tr = go() if main else run_in_thread(go)
        finally:
            signal.signal(signal.SIGINT, default_handler)
            signal.set_wakeup_fd(-1)
        return tr

    def classes(self, tr):
        res = []
        stack = []
        for e in tr["ev"]:
            if e["k"] == "enter":
                stack.append(e["kind"])
            res.append((tuple(stack), e["k"], e.get("name", ""), tr["main"], tr["snap0"]["nb"]))
            if e["k"] in ("exit", "raise") and stack:
                stack.pop()
        return res

    def case_class(self, tr, v):
        l = v[2]
        evs = tr["ev"]
        e = evs[l - 1] if 0 < l <= len(evs) else {}
        kinds = []
        stack = []
        trig = False
        for x in evs[:l]:
            if x["k"] == "enter":
                stack.append(x["kind"])
            elif x["k"] == "op" and x["name"] == "trigger":
                trig = True
            elif x["k"] in ("exit", "raise") and stack:
                kinds = list(stack)
                stack.pop()
        leaving = kinds[-1] if kinds else "?"
        if v[1] == "NoDescriptorLeak":
            return f"{leaving}:{'after-threadsafe_event_trigger' if trig else 'no-trigger'}"
        return f"{leaving}:{'main' if tr['main'] else 'thread'}"

    def describe(self, tr, v):
        l = v[2]
        return json.dumps({"main": tr["main"], "snap0": tr["snap0"],
                           "events": [{k: x[k] for k in x if k != "toks"} for x in tr["ev"][:l]]})[:1500]


CHECK = C12()

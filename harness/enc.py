"""Serialisation of curtsies values into the homogeneous encoding the TLA+ modules use, and the
ECMA-48 lexer that cuts terminal output into tokens.  Raw snapshots only - no interpretation."""
import json

COLORS = ("black", "red", "green", "yellow", "blue", "magenta", "cyan", "gray")
STYLE_ORDER = ("bold", "dark", "italic", "underline", "blink", "invert")
ATT_ORDER = ("fg", "bg") + STYLE_ORDER
NOATTS = [0] * 8


def enc_text(s):
    return [ord(c) for c in s]


def dec_text(cps):
    return "".join(chr(c) for c in cps)


def enc_atts(atts):
    """atts mapping of a Chunk -> 8-tuple; anything outside the public attribute space -> 99."""
    out = [0] * 8
    for k, v in atts.items():
        if k == "fg":
            out[0] = v - 29 if isinstance(v, int) and not isinstance(v, bool) and 30 <= v <= 37 else 99
        elif k == "bg":
            out[1] = v - 39 if isinstance(v, int) and not isinstance(v, bool) and 40 <= v <= 47 else 99
        elif k in STYLE_ORDER:
            i = 2 + STYLE_ORDER.index(k)
            out[i] = 1 if v is False else (2 if v is True else (3 if v is None else 99))   # 3: explicitly None (bold=flag or None)
        else:
            out[0] = 98  # unknown attribute key
    return out


def dec_atts(a):
    """8-tuple -> kwargs for fmtstr/Chunk (numbers for colours)."""
    d = {}
    if a[0]:
        d["fg"] = 29 + a[0]
    if a[1]:
        d["bg"] = 39 + a[1]
    for i, k in enumerate(STYLE_ORDER):
        if a[2 + i] == 1:
            d[k] = False
        elif a[2 + i] == 2:
            d[k] = True
        elif a[2 + i] == 3:
            d[k] = None
    return d


def enc_fmtstr(f):
    """FmtStr -> list of runs [[codepoints],[8 attribute codes]] read from its run list."""
    return [[enc_text(c.s), enc_atts(c.atts)] for c in f.chunks]


def enc_value(x):
    """str or FmtStr operand -> {"k": "s"|"f", "v": runs}."""
    if isinstance(x, str):
        return {"k": "s", "v": [[enc_text(x), list(NOATTS)]]}
    return {"k": "f", "v": enc_fmtstr(x)}


WARM = 0   # bit mask (4096: the same call was made right before on render twins of the operands, see twin_input): the operands built next are looked at first (1 .s, 2 str(), 4 .width, 8 len() / hash / width_at_offset);
           # 16: equal runs of a value are one shared Chunk object (as f + f, f * n, join build them);
           # 32: the recorded call is the second identical call on the same operand objects (fmtlib._again);
           # 64: the same call was cut short by a foreign exception at some line first (fmtlib._cut_short);
           # 128: operands are instances of a FmtStr subclass with a constructor of its own
           # 1024: the operand object went through a pseudo-random prologue of other public read-only calls first
           #       (slices incl. reversed ranges, indexing, iteration, str methods, shared_atts, split, width queries ...)
           # 2048: the operand is a PIECE cut out of a larger value that went through such a prologue before the cut
           # 512: the recorded call is spelled with keyword arguments, as the function's signature publishes them (call())
           # 256: operands are DERIVED from another value that was already rendered / measured: the same runs with one
           #      attribute different (then set right with copy_with_new_atts) or one more (then new_with_atts_removed)


def call(fn, *args):
    """fn(*args) - or, under WARM bit 512, the same call spelled with keywords: every argument whose parameter the
    function's own published signature (inspect.signature) offers by name is passed by that name.  The names are read
    from the tree under test, so renaming a parameter or making it positional-only changes what this spells, not
    whether it works; a function that rejects a spelling its signature offers is an observation."""
    if not WARM & 512:
        return fn(*args)
    import inspect
    try:
        params = list(inspect.signature(fn).parameters.values())
    except (TypeError, ValueError):
        return fn(*args)
    pos, kw = [], {}
    for k, a in enumerate(args):
        p = params[k] if k < len(params) else None
        if p is not None and p.kind == inspect.Parameter.POSITIONAL_OR_KEYWORD and not pos[k:]:
            kw[p.name] = a
        else:
            if kw:                      # a positional argument cannot follow keyword ones: fall back to the plain call
                return fn(*args)
            pos.append(a)
    return fn(*pos, **kw)


def warm(f, mask):
    """Look at a value the way a caller could have before handing it to an operation: fills the memo fields
    (FmtStr._s/_len/_width, Chunk.color_str) that an operation might wrongly share or inherit."""
    if mask & 1:
        f.s
    if mask & 2:
        str(f)
    if mask & 4:
        try:
            f.width
        except Exception:  # noqa
            pass
    if mask & 8:
        len(f)
        hash(f)
        try:
            f.width_at_offset(len(f))
        except Exception:  # noqa
            pass
    return f


_SUB = []


def _subclass():
    """an application's subclass of FmtStr: a helper method and a constructor with a signature of its own
    (a label first, then the runs); operations on its instances must behave like operations on their text"""
    if not _SUB:
        from curtsies.formatstring import FmtStr

        class Labelled(FmtStr):
            def __init__(self, label, *chunks):
                if not isinstance(label, str):
                    raise TypeError("Labelled(label, *chunks): label must be a str")
                super().__init__(*chunks)
                self.label = label

            def shout(self):
                return self.upper()
        _SUB.append(lambda *chunks: Labelled("row", *chunks))
    return _SUB[0]


# Other alphabets for the same inputs: the letters of a check's small alphabet stand for character CLASSES; a substitution
# re-runs an input with other members of the classes (the specifications judge code points, not letters).  Keys are the
# letters the checks enumerate (a/x: a base character, b/y: "the other one").
SUBSTS = [
    {97: 101, 98: 0x301, 120: 101, 121: 0x301},          # e + COMBINING ACUTE: a zero-width mark wherever a 'b' / 'y' stood
    {97: 0x2764, 98: 0x200D, 120: 0x2764, 121: 0xFE0F},  # heart, ZERO WIDTH JOINER / VARIATION SELECTOR-16
    {98: 0xE0100, 121: 0x1D167},                         # zero-width characters outside the BMP
    {97: 0x3000, 98: 0xA0, 120: 0x3000, 121: 0x202F},    # IDEOGRAPHIC SPACE (double-width), NO-BREAK SPACEs: not isprintable()
    {98: 0x1BAA, 121: 0x302E},                           # spacing combining marks: combining class != 0 but 1 / 2 columns wide
    {97: 0x212B, 98: 0x958, 120: 0xFA10, 121: 0x2126},   # characters that are not stable under NFC normalisation
    {97: 0x8FD9, 98: 0xFFFD, 120: 0x1FC6, 121: 0x5FEB},  # UTF-8 forms with the byte 0xBF before the last byte
    {98: 0x200B, 121: 0xFEFF},                           # ZERO WIDTH SPACE, BOM
]


def subst(obj, mapping):
    """the input with the texts of all its runs ([text, 8 attributes] pairs) and of its "s" / "t" code-point lists
    re-spelled through `mapping`; everything else (bounds, counts, attributes) is left alone"""
    def is_ints(x):
        return isinstance(x, list) and all(isinstance(c, int) and not isinstance(c, bool) for c in x)

    def walk(x, key=None):
        if isinstance(x, dict):
            return {k: walk(v, k) for k, v in x.items()}
        if isinstance(x, list):
            if len(x) == 2 and is_ints(x[0]) and is_ints(x[1]) and len(x[1]) == 8:
                return [[mapping.get(c, c) for c in x[0]], list(x[1])]
            if key in ("s", "t", "raw") and is_ints(x) and x:
                return [mapping.get(c, c) for c in x]
            return [walk(v, key) for v in x]
        return x
    return walk(obj)


SEED = 0     # set per input by PureCheck._execute: makes the prologues reproducible


def prologue(f, salt=0):
    """2..5 public read-only calls on f, chosen pseudo-randomly (SEED): a FmtStr is a value - nothing done to it before
    may change what a later call answers."""
    import random
    from curtsies.formatstring import linesplit
    r = random.Random(SEED * 31 + salt)
    n = len(f)

    def rb():
        return r.randrange(-n - 2, n + 3)
    menu = [
        lambda: f[rb():rb()], lambda: f[rb():rb()], lambda: f[rb():rb()], lambda: f[r.randrange(n)] if n else None,
        lambda: list(f), lambda: f.upper(), lambda: f.ljust(n + 1), lambda: f.rjust(n + 2, "*"), lambda: f.shared_atts,
        lambda: f.split("a"), lambda: f.split(" "), lambda: f.splitlines(), lambda: f.width,
        lambda: f.width_aware_slice(slice(abs(rb()), abs(rb()) + 1)), lambda: hash(f), lambda: f == "x", lambda: str(f),
        lambda: repr(f), lambda: f.copy(), lambda: f + "x", lambda: "y" + f, lambda: f * 2, lambda: f.splice("q", min(1, n)),
        lambda: linesplit(f, 3), lambda: f.width_at_offset(min(1, n)), lambda: list(f.width_aware_splitlines(3)),
        lambda: f.strip(), lambda: f.center(n + 3), lambda: f.s, lambda: len(f), lambda: f.new_with_atts_removed("bold"),
        lambda: f.copy_with_new_atts(underline=True), lambda: f.join(["p", "q"]), lambda: f.append("z"),
    ]
    for _ in range(r.randrange(2, 6)):
        try:
            r.choice(menu)()
        except Exception:  # noqa - what a prologue call answers is not under test here
            pass
    return f


def _piece(runs):
    """the value with these runs cut out of a larger value that was used before the cut (None when a cut cannot give
    exactly these runs: empty runs do not survive slicing)"""
    from curtsies.formatstring import FmtStr, Chunk
    if not runs or any(not t for t, _ in runs):
        return None
    n = sum(len(t) for t, _ in runs)
    big = FmtStr(Chunk("zq", {"fg": 35, "underline": True}), *(Chunk(dec_text(t), dec_atts(a)) for t, a in runs),
                 Chunk("w", {"bg": 43}))
    prologue(big, 7)
    want = [[list(t), list(a)] for t, a in runs]
    if SEED % 2:
        # cut by display columns (width_aware_slice) when that gives exactly these runs: texts whose columns can be
        # counted, no zero-width character at the front
        try:
            w = FmtStr(*(Chunk(dec_text(t), dec_atts(a)) for t, a in runs)).width
            piece = big.width_aware_slice(slice(2, 2 + w))
            if enc_fmtstr(piece) == want:
                return piece
        except Exception:  # noqa - control characters have no width: cut by characters instead
            pass
    piece = big[2:2 + n]
    return piece if enc_fmtstr(piece) == want else None


def _derived(runs):
    """the value with these runs, obtained from a value that was on a screen before: same runs, one attribute other /
    one attribute more, rendered, hashed and measured, then re-formatted into the wanted value"""
    from curtsies.formatstring import FmtStr, Chunk
    ok = lambda i, v: (1 <= v <= 8) if i < 2 else v in (1, 2)          # noqa: E731
    common = [i for i in range(8) if all(a[i] == runs[0][1][i] for _, a in runs) and ok(i, runs[0][1][i])]
    absent = [i for i in range(8) if all(a[i] == 0 for _, a in runs)]
    pick = sum(len(t) for t, _ in runs) + len(runs)
    if common and (pick % 2 == 0 or not absent):
        i = common[pick % len(common)]
        v = runs[0][1][i]
        other = (v % 8) + 1 if i < 2 else 3 - v
        base = FmtStr(*(Chunk(dec_text(t), dec_atts([other if j == i else c for j, c in enumerate(a)])) for t, a in runs))
        warm(base, 15)
        return base.copy_with_new_atts(**dec_atts([v if j == i else 0 for j in range(8)]))
    if absent:
        i = absent[pick % len(absent)]
        base = FmtStr(*(Chunk(dec_text(t), dec_atts([(3 if i < 2 else 2) if j == i else c for j, c in enumerate(a)])) for t, a in runs))
        warm(base, 15)
        return base.new_with_atts_removed(ATT_ORDER[i])
    return None


def build_fmtstr(runs):
    """runs -> real FmtStr built from Chunks (used by enumerations; the public constructors are
    exercised separately by C14/C01 spellings)."""
    from curtsies.formatstring import FmtStr, Chunk
    cls = _subclass() if WARM & 128 else (lambda *chunks: FmtStr(*chunks))
    if WARM & 2048 and not WARM & (128 | 256 | 16) and runs:
        d = _piece(runs)
        if d is not None:
            return warm(d, WARM) if WARM & 15 else d
    if WARM & 256 and not WARM & 128 and runs:
        d = _derived(runs)
        if d is not None:
            if WARM & 1024:
                prologue(d)
            return warm(d, WARM) if WARM & 15 else d
    if WARM & 16:
        made = {}
        f = cls(*(made.setdefault(json.dumps([t, a]), Chunk(dec_text(t), dec_atts(a))) for t, a in runs))
    else:
        f = cls(*(Chunk(dec_text(t), dec_atts(a)) for t, a in runs))
    if WARM & 1024 and not WARM & 128:
        prologue(f)
    return warm(f, WARM) if WARM & 15 else f


def _is_runs(v):
    return (isinstance(v, list) and bool(v)
            and all(isinstance(r, list) and len(r) == 2 and isinstance(r[0], list) and isinstance(r[1], list) and len(r[1]) == 8
                    and all(isinstance(c, int) for c in r[0]) and all(isinstance(c, int) for c in r[1]) for r in v))


def _twin_runs(runs):
    """another run list with the very same terminal string: the formatting spelled out as escape characters in the text
    of one plain run (or, when the text already holds escape characters, their parse); for an unformatted value the same
    text in one run without any explicitly-False attribute"""
    from curtsies.formatstring import FmtStr, Chunk
    try:
        f = FmtStr(*(Chunk(dec_text(t), dec_atts(a)) for t, a in runs))
        s = str(f)
        if any(c in (27, 155) for t, _ in runs for c in t):
            g = FmtStr.from_str(s)
            return enc_fmtstr(g) if str(g) == s else runs
        if s != f.s:
            return [[enc_text(s), list(NOATTS)]]
        return [[enc_text(s), list(NOATTS)]]
    except Exception:  # noqa - no twin for this value
        return runs


def twin_input(v):
    """an input description with every FmtStr operand replaced by a render twin (plain str operands stay)"""
    if isinstance(v, dict):
        if v.get("k") == "s":
            return v
        return {k: twin_input(x) for k, x in v.items()}
    if _is_runs(v):
        return _twin_runs(v)
    if isinstance(v, list):
        return [twin_input(x) for x in v]
    return v


def build_value(v):
    if v["k"] == "s":
        return "".join(dec_text(t) for t, _ in v["v"])
    return build_fmtstr(v["v"])


def exc_name(e):
    return type(e).__name__


# ------------------------------------------------------------------ lexer

def lex(s):
    """Cut a terminal string into tokens:
       ["t", cp]                       a character (C0 controls other than ESC included)
       ["m", [p...]]                   SGR
       ["c", private, [p...], inter, final]   other CSI control function
       ["e", ch]                       ESC + one character (Fe/Fp/Fs)
       ["i", "csi"]                    a complete but malformed CSI sequence that terminals ignore
       ["x", "bad"]                    truncated / otherwise unreadable sequence
    """
    out = []
    i, n = 0, len(s)
    while i < n:
        c = s[i]
        if c == "\x1b" and i + 1 < n and s[i + 1] == "[" or c == "\x9b":
            j = i + (2 if c == "\x1b" else 1)
            k = j
            while k < n and "\x30" <= s[k] <= "\x3f":
                k += 1
            params = s[j:k]
            m = k
            while m < n and "\x20" <= s[m] <= "\x2f":
                m += 1
            inter = s[k:m]
            if m < n and "\x40" <= s[m] <= "\x7e":
                final = s[m]
                private = ""
                if params and params[0] in "<=>?":
                    private, params = params[0], params[1:]
                ok = all(ch.isdigit() or ch == ";" for ch in params)
                if not ok:
                    out.append(["x", "bad"])
                else:
                    ps = [int(p) if p else 0 for p in params.split(";")] if params else []
                    if any(p >= 2 ** 31 for p in ps):
                        out.append(["x", "bad"])
                    elif final == "m" and not private and not inter:
                        out.append(["m", ps])
                    else:
                        out.append(["c", private, ps, inter, final])
                i = m + 1
            else:
                # a parameter byte after an intermediate byte (e.g. ESC[-2;4H): ECMA-48 does not allow it; terminals
                # (xterm's CSI-ignore state) swallow the sequence up to its final byte and do nothing
                q = m
                while q < n and "\x20" <= s[q] <= "\x3f":
                    q += 1
                if inter and q > m and q < n and "\x40" <= s[q] <= "\x7e":
                    out.append(["i", "csi"])
                    i = q + 1
                else:
                    out.append(["x", "bad"])
                    i = m
        elif c == "\x1b":
            if i + 1 < n:
                out.append(["e", s[i + 1]])
                i += 2
            else:
                out.append(["x", "bad"])
                i += 1
        else:
            out.append(["t", ord(c)])
            i += 1
    return out

"""Regenerate the table of seeded/README.md from the meta.json files (the text above the table is kept)."""
import json
import os
import re

VERIF = os.path.dirname(os.path.dirname(os.path.abspath(__file__)))


def main():
    d = os.path.join(VERIF, "seeded")
    path = os.path.join(d, "README.md")
    head = open(path).read().split("| dir |")[0]
    rows = ["| dir | property | change | needs, to manifest | baseline suite passes | demo distinguishes | caught by the quick check (failing clauses) |",
            "|---|---|---|---|---|---|---|"]
    names = sorted(n for n in os.listdir(d) if os.path.exists(os.path.join(d, n, "meta.json")))
    missed = []
    for n in names:
        m = json.load(open(os.path.join(d, n, "meta.json")))
        clauses = []
        for r in m.get("ran", []):
            for l in r.get("violation_lines", []):
                g = re.search(r"signature=(\S+)", l)
                if g and g.group(1) not in clauses:
                    clauses.append(g.group(1))
        yn = lambda b: "yes" if b else "NO"
        if "missed at first" in m.get("needs_to_manifest", ""):
            missed.append(n)
        rows.append("| %s | %s | %s | %s | %s | %s | %s |" % (
            n, m["property"], m.get("what", "").replace("|", "/"), m.get("needs_to_manifest", "").replace("|", "/"),
            yn(m.get("baseline_passes_with_patch")), yn(m.get("demo_distinguishes")),
            (yn(m.get("caught_by_quick_check")) + (": " + ", ".join(clauses[:3]) if clauses else ""))))
    open(path, "w").write(head + "\n".join(rows) + "\n")
    print(len(names), "changes;", len(missed), "missed at first:", " ".join(missed))


if __name__ == "__main__":
    main()

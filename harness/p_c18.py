"""C18 - cursor position query parses the report exactly; movement is conserved."""
import itertools
import re

import enc
import winlib
from purecheck import PureCheck

REPORT_RE = re.compile(r"(\x1b\[|\x9b)\d+;\d+R")
EXTRA_ALPHA = ["x", "\x1b", "[", "1", ";", "R", "\n"]


class ScriptIn:
    """in_stream double: read(1) pops scripted characters; chosen read attempts fail with OSError."""

    def __init__(self, encoding="utf-8"):
        self.encoding = encoding
        self.chars = []
        self.attempt = 0
        self.faults = set()
        self.fault_kinds = []     # which OSError each failing attempt raises (bare, EBADF, EIO, EAGAIN, EINTR, ENXIO)
        self.consumed = 0
        self.on_read = None

    def read(self, n=1):
        self.attempt += 1
        if self.on_read:
            self.on_read(self)
        if self.attempt in self.faults:
            import errno as E
            kind = self.fault_kinds[self.attempt % len(self.fault_kinds)] if self.fault_kinds else 0
            if kind == 0:
                raise OSError("injected")
            if kind == 1:
                raise OSError(E.EBADF, "Bad file descriptor")
            if kind == 2:
                raise OSError(E.EIO, "Input/output error")
            if kind == 3:
                raise BlockingIOError(E.EAGAIN, "Resource temporarily unavailable")
            if kind == 4:
                raise InterruptedError(E.EINTR, "Interrupted system call")
            raise OSError(E.ENXIO, "No such device or address")
        if not self.chars:
            return ""
        self.consumed += 1
        return self.chars.pop(0)

    def fileno(self):
        raise OSError("no fd")


class C18(PureCheck):
    pid = "C18"
    sweep_exclude = ("NO_COLOR",)      # part (b) renders through blessed, which switches every capability off under NO_COLOR
    module = "QueryTrace"
    rule = ("(a) get_cursor_position on a scripted in_stream: reports with row/col in {1,9,10,123,65535} in 7-bit and 8-bit "
            "CSI form, preceded by every string of length <=4 over {x, ESC, [, 1, ;, R, newline} that contains no complete "
            "report (quick: all <=3 + sampled 4), plus long bursts (40..1000 characters) and non-ASCII characters ahead of the report on utf-8 and latin-1 streams, followed by trailing input, with 0..3 OSError faults at chosen read attempts, "
            "with and without extra_bytes_callback (given to the constructor or assigned afterwards), after earlier queries on the same window that did or did not find input ahead of their report, reports shaped like modified function keys (row 1/2, columns 2..8); (b) get_cursor_vertical_diff after a real render (arrays shorter than / as tall as / taller than the terminal, cursor on the first, second, last array row) followed by a movement of -1..2 rows, and with top_usable_row in -1..4, last cursor row "
            "None/0..4, the application's own get_cursor_position between movement and call, 1..3 successive reported rows 0..5 and a nested call injected during the first or second query. "
            "distinct_nontrivial = distinct cases with non-empty extra, a fault, or a non-zero movement")
    exhaustive = {"quick": False, "thorough": True}

    def design_runs(self, tier):
        cfg = ("SPECIFICATION Spec\nCONSTANT MaxRow = %d\nCONSTANT MaxSteps = 3\nINVARIANT Conserved\nINVARIANT TopInRange\n"
               "CHECK_DEADLOCK FALSE\n" % (5 if tier == "quick" else 7))
        return [dict(module="MC_VDiff", cfg=cfg, workers=8)]

    def inputs(self, tier, rng):
        extras = []
        for n in range(0, 5):
            for combo in itertools.product(EXTRA_ALPHA, repeat=n):
                s = "".join(combo)
                if not REPORT_RE.search(s):
                    extras.append(s)
        if tier == "quick":
            extras = [e for e in extras if len(e) <= 3] + rng.sample([e for e in extras if len(e) == 4], 300)
        vals = [1, 9, 10, 123, 65535]
        trailings = ["", "x", "\x1b[A", "R"]
        k = 0
        for ex in extras:
            combos = [(r, c) for r in vals for c in vals]
            pick = combos if tier == "thorough" else [combos[(k * 7 + j * 3) % len(combos)] for j in range(3)]
            for (r, c) in pick:
                k += 1
                csi8 = k % 2
                tr = trailings[k % len(trailings)]
                total = len(ex) + 12
                nf = (k // 3) % 4
                faults = sorted(rng.sample(range(1, total), nf)) if nf else []
                yield {"op": "query", "extra": enc.enc_text(ex), "row": r, "col": c, "csi8": csi8,
                       "trailing": enc.enc_text(tr), "faults": faults, "cb": int(k % 5 != 0)}
        # reports that look like a modified function key (row 1 / 2, columns 2..8) behind other input
        for col in range(2, 9):
            for row in (1, 2):
                for ex in ("x", "\x1b", "1;", "ab\n", ""):
                    k += 1
                    yield {"op": "query", "extra": enc.enc_text(ex), "row": row, "col": col, "csi8": k % 2,
                           "trailing": enc.enc_text(trailings[k % 4]), "faults": [], "cb": int(k % 3 != 0)}
        # the same window asked before: earlier queries with and without input ahead of their report (without a callback
        # those raise ValueError, which the application caught); the callback attribute assigned after construction
        for cb in (0, 1):
            for prior in ([{"extra": enc.enc_text("zz"), "row": 3, "col": 4}], [{"extra": [], "row": 7, "col": 3}],
                          [{"extra": enc.enc_text("q\x1b["), "row": 2, "col": 2}, {"extra": enc.enc_text("w"), "row": 5, "col": 5}]):
                for ex in ("", "x", "\x1b[1"):
                    for (r, c) in ((6, 2), (1, 1), (123, 10)):
                        k += 1
                        yield {"op": "query", "extra": enc.enc_text(ex), "row": r, "col": c, "csi8": 0,
                               "trailing": enc.enc_text(trailings[k % 4]), "faults": [], "cb": cb, "prior": prior}
            for ex in ("", "x", "ab\x1b", "\x1b[1;"):
                for (r, c) in ((4, 2), (9, 10)):
                    k += 1
                    yield {"op": "query", "extra": enc.enc_text(ex), "row": r, "col": c, "csi8": k % 2,
                           "trailing": enc.enc_text(trailings[k % 4]), "faults": [], "cb": cb, "cbset": 1}
        # a terminal that changes the form of its reports between queries (S7C1T / S8C1T toggled, a reattached session):
        # earlier queries answered with one introducer, this one with the other - and the same form all along as control
        for cb in (0, 1):
            for p8 in ([0], [1], [0, 0], [1, 0], [0, 1]):
                for csi8 in (0, 1):
                    for ex in ("", "x"):
                        k += 1
                        prior = [{"extra": [], "row": 2 + j, "col": 3, "csi8": c8} for j, c8 in enumerate(p8)]
                        yield {"op": "query", "extra": enc.enc_text(ex), "row": vals[k % 5], "col": vals[(k // 2) % 5], "csi8": csi8,
                               "trailing": enc.enc_text(trailings[k % 4]), "faults": [], "cb": cb, "prior": prior, "enc": "latin-1"}
        # characters outside ASCII typed ahead of the report, on utf-8 and latin-1 streams (7-bit reports on both)
        for ex in ("\xe9", "x\xe9", "\xe9\x1b[1", "\xff\xe9", "\u20ac", "a\u65e5"):
            for encname in ("utf-8", "latin-1"):
                if encname == "latin-1" and any(ord(c) > 255 for c in ex):
                    continue
                for csi8 in ((0, 1) if encname == "latin-1" else (0,)):
                    k += 1
                    yield {"op": "query", "extra": enc.enc_text(ex), "row": vals[k % 5], "col": vals[(k // 2) % 5], "csi8": csi8,
                           "trailing": enc.enc_text(trailings[k % 4]), "faults": [], "cb": 1, "enc": encname}
        # a long burst of input ahead of the report (a paste arriving while the query is outstanding)
        for n in (40, 50, 56, 57, 58, 63, 64, 65, 100, 200, 1000):
            for csi8 in (0, 1):
                k += 1
                alpha = "xyzw\x1b[1;R\n"
                ex = "".join(alpha[(j * 7 + n) % len(alpha)] for j in range(n))
                if REPORT_RE.search(ex):
                    ex = ex.replace("R", "q")
                yield {"op": "query", "extra": enc.enc_text(ex), "row": vals[k % 5], "col": vals[(k // 2) % 5], "csi8": csi8,
                       "trailing": enc.enc_text(trailings[k % 4]), "faults": [2] if n == 64 else [], "cb": 1}
        # reads failing with every kind of OSError (bare, EBADF, EIO, EAGAIN, EINTR, ENXIO), alone and mixed
        for kinds in ([1], [2], [3], [4], [5], [0, 1, 2], [1, 3, 4, 5, 2]):
            for faults in ([1], [3], [2, 3, 9], [1, 2, 3, 4, 5, 6]):
                k += 1
                yield {"op": "query", "extra": enc.enc_text("x\n"), "row": 9, "col": 10, "csi8": k % 2,
                       "trailing": enc.enc_text("R"), "faults": faults, "kinds": kinds, "cb": 1}
        # one read failing very many times in a row before it succeeds
        for nfail in (200, 1200, 5000):
            for first in (1, 5):
                k += 1
                yield {"op": "query", "extra": enc.enc_text("ab"), "row": 17, "col": 5, "csi8": k % 2,
                       "trailing": enc.enc_text("tail"), "faults": list(range(first, first + nfail)), "cb": 1}
        rowsets = [[a] for a in range(6)] + [[a, b] for a in range(6) for b in range(6)] + \
                  [[a, b, c] for a in (0, 2, 5) for b in (1, 5) for c in (0, 3)]
        for top0 in range(-1, 5):
            for last0 in [-1] + list(range(0, 5)):
                for rows in rowsets:
                    for nested in range(0, len(rows)):
                        if tier == "quick" and len(rows) > 1 and (top0 + last0 + sum(rows) + nested) % 3:
                            continue
                        yield {"op": "vdiff", "top0": top0, "last0": last0, "rows": rows, "nested": nested}
        # the nested call arriving at every line of the outer call
        # the baseline left behind by a real render (arrays shorter than, as tall as and taller than the 5-row terminal,
        # the cursor on the first, second and last array row), then the content moves by d rows
        for top0 in (0, 1, 3):
            for n in (1, 3, 5, 6, 8, 9):
                for cr in sorted({0, min(1, n - 1), n - 1}):
                    for d in (-1, 0, 1, 2):
                        yield {"op": "vdiff", "top0": top0, "last0": 0, "rows": [], "nested": 0, "render": [n, cr], "d": d}
        # the application looks at the cursor itself (get_cursor_position) between the movement and the call
        for top0 in (0, 2, 4):
            for last0 in (-1, 0, 2, 4):
                for row in range(0, 6):
                    for peek in (1, 2):
                        yield {"op": "vdiff", "top0": top0, "last0": last0, "rows": [row, row, row], "nested": 0, "peek": peek}
        for n in (1, 3, 6):
            for d in (-1, 0, 1, 3):
                yield {"op": "vdiff", "top0": 1, "last0": 0, "rows": [], "nested": 0, "render": [n, n - 1], "d": d, "peek": 1}
        for (top0, last0, rows) in ((5, 5, [8, 8, 8]), (0, 2, [5, 5, 5]), (3, 4, [1, 1, 1]), (-1, 0, [3, 4, 4]), (2, -1, [4, 6, 6]), (1, 3, [3, 3, 3])):
            for k in range(1, 41):
                yield {"op": "vdiff", "top0": top0, "last0": last0, "rows": rows, "nested": 0, "nested_line": k}

    def execute(self, inp):
        import sys
        try:
            return self._execute_case(inp)
        finally:
            sys.settrace(None)

    def _execute_case(self, inp):
        from curtsies.window import CursorAwareWindow
        ev = dict(inp)
        out = winlib.CaptureStream(24, 80)
        try:
            if inp["op"] == "query":
                ins = ScriptIn(inp.get("enc") or ("latin-1" if inp["csi8"] else "utf-8"))
                ev["enc"] = ins.encoding
                report = ("\x9b" if inp["csi8"] else "\x1b[") + f"{inp['row']};{inp['col']}R"
                ev["report"] = enc.enc_text(report)
                ins.chars = list(enc.dec_text(inp["extra"]) + report + enc.dec_text(inp["trailing"]))
                ins.faults = set(inp["faults"])
                ins.fault_kinds = inp.get("kinds", [])
                calls = []
                cb = (lambda b: calls.append(list(b)))
                if inp.get("cbset"):
                    # the public attribute is assigned after construction: a window built without a callback gets one
                    # later, or the other way round
                    win = CursorAwareWindow(out_stream=out, in_stream=ins, extra_bytes_callback=None if inp["cb"] else cb)
                    win.extra_bytes_callback = cb if inp["cb"] else None
                else:
                    win = CursorAwareWindow(out_stream=out, in_stream=ins, extra_bytes_callback=cb if inp["cb"] else None)
                for pr in inp.get("prior", []):
                    # earlier queries on the same window (their outcome - a position, or ValueError for input ahead of the
                    # report when there is no callback - is not recorded); nothing of them is left in the stream
                    saved = ins.chars
                    ins.chars = list(enc.dec_text(pr["extra"]) + ("\x9b" if pr.get("csi8") else "\x1b[") + "%d;%dR" % (pr["row"], pr["col"]))
                    try:
                        win.get_cursor_position()
                    except Exception:  # noqa
                        pass
                    ins.chars = saved
                    ins.consumed = 0
                    del calls[:]
                    out.take()
                try:
                    r = win.get_cursor_position()
                    ev["k"], ev["t"], ev["ret"] = "ok", "", [r[0], r[1]]
                except Exception as e:  # noqa
                    ev["k"], ev["t"], ev["ret"] = "exc", enc.exc_name(e), [0, 0]
                ev["calls"] = calls
                ev["rest"] = enc.enc_text("".join(ins.chars))
                ev["consumed"] = ins.consumed
                ev["asked"] = out.take().count("\x1b[6n")
            else:
                ins = ScriptIn()
                if inp.get("render"):
                    # the baseline is not handed in but left behind by a real render on a 5-row terminal: an array of n
                    # rows drawn from row top0 with the cursor on array row cr; where the terminal's cursor then is
                    # (the last cursor-position sequence written) is the row all later movement is measured from
                    out.close()
                    out = winlib.CaptureStream(5, 20)
                    win = CursorAwareWindow(out_stream=out, in_stream=ins, extra_bytes_callback=None)
                    win.top_usable_row = inp["top0"]
                    n, cr = inp["render"]
                    win.render_to_terminal(["r%d" % k for k in range(n)], (cr, 1))
                    cups = [t for t in enc.lex(out.take()) if t[0] == "c" and t[4] == "H" and t[1] == ""]
                    at = min(4, max(0, (cups[-1][2][0] if cups and cups[-1][2] else 1) - 1))
                    ev["top0"], ev["last0"] = win.top_usable_row, at
                    ev["rows"] = [at + inp["d"]] * 3
                    inp = dict(inp, rows=ev["rows"])
                else:
                    win = CursorAwareWindow(out_stream=out, in_stream=ins, extra_bytes_callback=None)
                    win.top_usable_row = inp["top0"]
                    win._last_cursor_row = None if inp["last0"] == -1 else inp["last0"]
                rows = inp["rows"]
                state = {"q": 0, "nested_done": False, "nestedret": 0}
                orig_write = out.write

                def write(s, _w=orig_write):
                    n = s.count("\x1b[6n")
                    for _ in range(n):
                        if state.get("peek"):
                            # the application's own look at the cursor: answered with where the cursor is now
                            ins.chars.extend(f"\x1b[{rows[0] + 1};1R")
                            continue
                        state["q"] += 1
                        row = rows[min(state["q"], len(rows)) - 1]
                        ins.chars.extend(f"\x1b[{row + 1};1R")
                    return _w(s)
                out.write = write

                def on_read(_ins):
                    if inp["nested"] and state["q"] == inp["nested"] and not state["nested_done"]:
                        state["nested_done"] = True
                        state["nestedret"] = win.get_cursor_vertical_diff()
                ins.on_read = on_read
                ev["free"] = 0
                if inp.get("nested_line"):
                    # a second call (a SIGWINCH handler) arrives at the k-th line the outer call executes in window.py -
                    # before the query, during it, or during the bookkeeping that follows
                    import sys
                    ev["free"] = 1
                    cnt = [0]

                    def tracer(frame, event, arg):
                        if not frame.f_code.co_filename.endswith("window.py"):
                            return None
                        # lines of the two bookkeeping functions only (arrivals during the query itself are the
                        # read-time injections above)
                        if frame.f_code.co_name not in ("get_cursor_vertical_diff", "_get_cursor_vertical_diff_once"):
                            return tracer
                        if event == "line" and not state["nested_done"]:
                            cnt[0] += 1
                            if cnt[0] == inp["nested_line"]:
                                state["nested_done"] = True
                                sys.settrace(None)
                                try:
                                    state["nestedret"] = win.get_cursor_vertical_diff()
                                finally:
                                    sys.settrace(tracer)
                        return tracer
                    sys.settrace(tracer)
                if inp.get("peek"):
                    # between the movement and the call the application asks where the cursor is, itself (once or twice)
                    state["peek"] = True
                    for _ in range(inp["peek"]):
                        win.get_cursor_position()
                    state["peek"] = False
                    out.take()
                try:
                    ev["ret"] = win.get_cursor_vertical_diff()
                    ev["k"], ev["t"] = "ok", ""
                except Exception as e:  # noqa
                    ev["ret"], ev["k"], ev["t"] = 0, "exc", enc.exc_name(e)
                if inp.get("nested_line"):
                    import sys
                    sys.settrace(None)
                ev["top1"] = win.top_usable_row
                ev["last1"] = -1 if win._last_cursor_row is None else win._last_cursor_row
                ev["nestedret"] = state["nestedret"]
                ev["queries"] = state["q"]
            return ev
        finally:
            out.close()

    def classify(self, ev):
        if ev["op"] == "query":
            if ev["extra"] or ev["faults"]:
                return ("q", tuple(ev["extra"]), ev["row"], ev["col"], ev["csi8"], tuple(ev["faults"]), ev["cb"])
            return None
        if ev["last0"] != -1 and ev["rows"][-1] != ev["last0"]:
            return ("v", ev["top0"], ev["last0"], tuple(ev["rows"]), ev["nested"])
        return None

    def case_class(self, ev, v):
        if ev["op"] == "query":
            return "query:" + ("extra" if ev["extra"] else "noextra") + (":faults" if ev["faults"] else "") + (":cb" if ev["cb"] else ":nocb")
        return "vdiff:" + ("nested" if ev["nested"] else "plain")

    def describe(self, ev, v):
        return str(ev)[:700]


CHECK = C18()

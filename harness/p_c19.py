"""C19 - equality, hashing and repr of FmtStr are coherent with what it displays."""
import ast

import enc
import fmtlib
from fmtlib import layouts
from purecheck import PureCheck

ATTS = [fmtlib.PLAIN, fmtlib.RED, fmtlib.BOLD_ON_BLUE, [2, 0, 1, 0, 0, 0, 0, 0]]  # last: red with bold=False
REPR_TEXTS = ["a'b", 'q"', "\\n", "\n\t", "Ｅ́", "x" * 3, "\x1b", "'\"", "",
              # texts a constructor might be tempted to normalise: CR LF, CR CR LF, a lone CR, trailing blanks, NUL, BOM, a tab
              "l1\r\nl2", "a\r\r\nb", "\r", "x  ", " y", "\x00z", "\ufeffq", "a\tb", "A\u030a", "\u212b"]


def fmtfuncs_ns():
    from curtsies import fmtfuncs
    return {k: getattr(fmtfuncs, k) for k in dir(fmtfuncs) if not k.startswith("_") and k != "fmtstr"}


def shape_ok(src, names):
    """repr must be an expression built only from fmtfuncs calls, string literals, + and parentheses."""
    try:
        tree = ast.parse(src, mode="eval")
    except SyntaxError:
        return 0

    def ok(n):
        if isinstance(n, ast.Expression):
            return ok(n.body)
        if isinstance(n, ast.BinOp) and isinstance(n.op, ast.Add):
            return ok(n.left) and ok(n.right)
        if isinstance(n, ast.Constant) and isinstance(n.value, str):
            return True
        if isinstance(n, ast.Call) and isinstance(n.func, ast.Name) and n.func.id in names and not n.keywords:
            return all(ok(a) for a in n.args)
        return False
    return int(ok(tree))


def shown(s):
    """the characters of a terminal string, each with the SGR state it is displayed under (a small interpreter over the
    lexed tokens: 0 resets, 39 / 49 reset a colour, 22.. are not produced by the library)"""
    st = [0] * 8
    out = []
    for tok in enc.lex(s):
        if tok[0] == "t":
            out.append([tok[1]] + list(st))
        elif tok[0] == "m":
            for p in (tok[1] or [0]):
                if p == 0:
                    st = [0] * 8
                elif 30 <= p <= 37:
                    st[0] = p - 29
                elif p == 39:
                    st[0] = 0
                elif 40 <= p <= 47:
                    st[1] = p - 39
                elif p == 49:
                    st[1] = 0
                elif p in (1, 2, 3, 4, 5, 7):
                    st[2 + (1, 2, 3, 4, 5, 7).index(p)] = 1
        else:
            out.append([-1] + list(st))
    return out


def spelled(v):
    """the operand of an eq case; kind "r" is a plain str spelling the formatting of a value in escape sequences"""
    import re
    if v["k"] == "d":
        # a value derived from one that was already on a screen: the same runs with the style switched on, rendered and
        # hashed, then the style switched off again with fmtstr(value, style=False)
        from curtsies.formatstring import fmtstr
        i = v["style"]
        fo = enc.build_fmtstr([[t, [2 if j == i else c for j, c in enumerate(a)]] for t, a in v["v"]])
        str(fo), hash(fo), fo == fo
        return fmtstr(fo, **{enc.STYLE_ORDER[i - 2]: False})
    if v["k"] == "c":
        # a piece cut out of a value that was rendered and hashed before the cut
        parent = enc.build_fmtstr(v["pv"])
        str(parent), hash(parent)
        return parent[v["a"]:v["b"]]
    if v["k"] != "r":
        return enc.build_value(v)
    s = str(enc.build_fmtstr(v["v"]))
    j = v["variant"]
    seq = r"\x1b\[([0-9;]*)m"
    if j == 1:
        s += "\x1b[0m"
    elif j == 2:
        s = "\x1b[m" + s
    elif j == 3:
        s = s.replace("\x1b[39m", "\x1b[0m").replace("\x1b[49m", "\x1b[0m")
    elif j == 4:
        s = re.sub("^(%s)(%s)" % (seq, seq), lambda m: m.group(3) + m.group(1), s)
    elif j == 5:
        s = re.sub("(%s)+$" % seq, "", s)
    elif j == 6:
        s = re.sub("^%s%s" % (seq, seq), lambda m: "\x1b[%s;%sm" % (m.group(1), m.group(2)), s)
    return s


class C19(PureCheck):
    pid = "C19"
    subst_every = 6
    warm_every = 3
    rule = ("pool of FmtStr values from Layouts(2,2) over {plain, red, bold+on_blue, red+bold=False} (same text/different "
            "formatting, same display/different run boundaries, empty runs, explicit False) plus every plain str of the pool's "
            "texts and plain strs carrying escape sequences (the value's own terminal string and 6 other spellings of it), values derived from an already rendered styled value by switching the style off, and pieces cut out of an already rendered value (texts spelled like a fragment of their own escape sequence included); canonically equivalent Unicode spellings of one text; values whose terminal string has about 1024 / 1100 / 2500 characters against the equal str and near misses; all ordered pairs (quick: a sampled pool of 150 -> all pairs) with ==, !=, reversed ==, hash, set and dict "
            "membership recorded together with both terminal strings; repr round trip (eval in a namespace holding only the "
            "fmtfuncs names) for every layout with >=1 run, sums of two values shown before they were added (every split point, zero-run operands included), texts with quotes/escapes and run boundaries right before a combining / zero-width character. distinct_nontrivial = distinct pairs "
            "whose texts are equal but run lists differ, or repr cases with >=1 formatted run")
    exhaustive = {"quick": False, "thorough": False}

    def prepare(self, tier):
        # earlier in the process every fmtfuncs helper was called with further names and keywords (red('x', bold=True),
        # on_blue('x', 'underline'), bold('x', fg='cyan')): what those calls returned says nothing about the bare helpers
        # a repr is evaluated with
        for name, fn in fmtfuncs_ns().items():
            for args, kw in ((("underline",), {}), ((), {"bold": True}), ((), {"fg": "cyan"}), (("on_magenta", "invert"), {"blink": False})):
                try:
                    str(fn("p", *args, **kw))
                except Exception:  # noqa
                    pass

    def design_runs(self, tier):
        cfg = ("SPECIFICATION Spec\nCONSTANT UVals = %s\nINVARIANT EqualStringsShowTheSame\nINVARIANT ReprRoundTrip\nCHECK_DEADLOCK FALSE\n"
               % ("{0}" if tier == "quick" else "{0, 1, 2}"))
        return [dict(module="MC_Eq", cfg=cfg, workers=8, timeout=3000)]

    def inputs(self, tier, rng):
        L = [l for l in layouts(2, 2, atts=ATTS)]
        n = 150 if tier == "quick" else 300
        # bias towards collisions: keep all layouts of total length <= 1, sample the rest
        small = [l for l in L if fmtlib.vlen(l) <= 1]
        rest = [l for l in L if fmtlib.vlen(l) > 1]
        pool = small[:60] + rng.sample(rest, n - min(60, len(small)))
        texts = sorted({"".join(chr(c) for t, _ in l for c in t) for l in pool})
        vals = [{"k": "f", "v": l} for l in pool] + [{"k": "s", "v": [[[ord(c) for c in t], [0] * 8]]} for t in texts]
        for x in vals:
            for y in vals:
                if x["k"] == "s" and y["k"] == "s":
                    continue
                yield {"op": "eq", "x": x, "y": y}
        # plain strs that carry escape sequences: the exact terminal string of a value (equal) and other spellings
        # of the same formatting (not equal: reset-all appended, empty SGR prepended, 39/49 written as 0, the first
        # two sequences swapped or merged, closing sequences dropped)
        fpool = [l for l in pool if any(any(a) for t, a in l if t)]
        for l in (fpool[:80] if tier == "quick" else fpool):
            for j in range(7):
                r = {"k": "r", "v": l, "variant": j}
                yield {"op": "eq", "x": {"k": "f", "v": l}, "y": r}
                yield {"op": "eq", "x": r, "y": {"k": "f", "v": l}}
        # derived values (rendered with a style on, then the style switched off) against the same runs built directly,
        # against the still-styled original, against their terminal string as a plain str, and against themselves
        for l in (fpool[:60] if tier == "quick" else fpool):
            for i in (2, 5):
                tgt = [[list(t), [1 if j == i else c for j, c in enumerate(a)]] for t, a in l]
                on = [[list(t), [2 if j == i else c for j, c in enumerate(a)]] for t, a in l]
                d = {"k": "d", "v": tgt, "style": i}
                for other in ({"k": "f", "v": tgt}, {"k": "f", "v": on}, {"k": "r", "v": tgt, "variant": 0}, d):
                    yield {"op": "eq", "x": d, "y": other}
                    yield {"op": "eq", "x": other, "y": d}
        # pieces cut out of an already rendered value - the run's text spelled like a fragment of its own escape sequence
        # or not - against the same runs built directly, their terminal string and themselves
        for text, a in (("31", [2, 0, 0, 0, 0, 0, 0, 0]), ("1m", [0, 0, 2, 0, 0, 0, 0, 0]), ("[44", [0, 5, 0, 0, 0, 0, 0, 0]),
                        ("ab", [2, 0, 2, 0, 0, 0, 0, 0]), ("[3", [2, 0, 0, 0, 0, 0, 0, 0]), ("4m", [0, 0, 0, 0, 0, 2, 0, 0])):
            t = [ord(ch) for ch in text]
            for (lo, hi) in ((0, 1), (1, len(t)), (0, len(t) - 1)):
                for tail in ([], [[[120], [0] * 8]]):
                    pv = [[list(t), list(a)]] + tail
                    tgt = [[t[lo:hi], list(a)]] + (tail if hi == len(t) and False else [])
                    c = {"k": "c", "v": tgt, "pv": pv, "a": lo, "b": hi}
                    for other in ({"k": "f", "v": tgt}, {"k": "r", "v": tgt, "variant": 0}, c):
                        yield {"op": "eq", "x": c, "y": other}
                        yield {"op": "eq", "x": other, "y": c}
        # values whose terminal string is long (around and beyond 1024 rendered characters) against the equal plain str
        # and against one that differs only in the middle / at the very end
        for n in (1013, 1014, 1015, 1100, 2500):
            for l in ([[[120] * n, [2, 0, 0, 0, 0, 0, 0, 0]]], [[[97] * (n // 2), [0, 5, 2, 0, 0, 0, 0, 0]], [[98] * (n - n // 2), [0] * 8]]):
                x = {"k": "f", "v": l}
                mid = [[list(t), list(a)] for t, a in l]
                mid[0][0][len(mid[0][0]) // 2 + 3] = 113
                for y in ({"k": "r", "v": l, "variant": 0}, {"k": "r", "v": l, "variant": 1}, {"k": "f", "v": mid}, {"k": "r", "v": mid, "variant": 0}, x):
                    yield {"op": "eq", "x": x, "y": y}
                    yield {"op": "eq", "x": y, "y": x}
        # canonically equivalent spellings of the same text (precomposed / decomposed, singletons, jamo, reordered marks):
        # other characters, so other terminal strings - never equal, whatever the formatting
        for (t1, t2) in (("\u00e9", "e\u0301"), ("\u212b", "\u00c5"), ("\u2126", "\u03a9"), ("\ud55c", "\u1112\u1161\u11ab"),
                         ("q\u0323\u0307", "q\u0307\u0323"), ("x\u00e9y", "xe\u0301y")):
            for a in (fmtlib.PLAIN, ATTS[1], ATTS[2]):
                x = {"k": "f", "v": [[[ord(c) for c in t1], list(a)]]}
                y = {"k": "f", "v": [[[ord(c) for c in t2], list(a)]]}
                for (p_, q_) in ((x, y), (y, x), (x, {"k": "r", "v": y["v"], "variant": 0}), ({"k": "r", "v": x["v"], "variant": 0}, y), (x, x)):
                    yield {"op": "eq", "x": p_, "y": q_}
        # values of different concrete classes (an application's subclass against the base class and against a str)
        for l in (fpool[:40] if tier == "quick" else fpool[:200]):
            for other in ({"k": "f", "v": l}, {"k": "r", "v": l, "variant": 0}, {"k": "f", "v": l[::-1]}):
                yield {"op": "eq", "x": {"k": "f", "v": l}, "y": other, "subx": 1}
        # a run whose TEXT holds a raw SGR sequence (FmtStr + str keeps a str operand verbatim) against the properly
        # formatted value with the same terminal string - cold, and with the views of both looked at before
        raw = [[97], [0] * 8], [[27, 91, 51, 49, 109, 98, 27, 91, 51, 57, 109], [0] * 8]
        twin = [[97], [0] * 8], [[98], [2, 0, 0, 0, 0, 0, 0, 0]]
        other = [[97], [0] * 8], [[98], [3, 0, 0, 0, 0, 0, 0, 0]]
        for x, y in ((raw, twin), (twin, raw), (raw, other), (raw, raw)):
            for w in (0, 1, 2, 3, 9, 15):
                yield {"op": "eq", "x": {"k": "f", "v": [list(map(list, r)) for r in x]}, "y": {"k": "f", "v": [list(map(list, r)) for r in y]}, "warm": w}
        reprpool = [l for l in L if len(l) >= 1] if tier == "thorough" else [l for l in L if len(l) >= 1][::3]
        for l in reprpool:
            yield {"op": "repr", "f": l}
        # a run boundary right before a combining / zero-width character, other formatting on each side (a cursor
        # highlight on the base letter of an accented character): the value is built from its runs, its repr uses +
        for mark in (769, 8205, 3633):
            for a1, a2 in ((ATTS[1], ATTS[2]), (fmtlib.PLAIN, ATTS[1]), (ATTS[2], fmtlib.PLAIN), (ATTS[1], ATTS[1])):
                yield {"op": "repr", "f": [[[99, 101], list(a1)], [[mark, 33], list(a2)]]}
                yield {"op": "repr", "f": [[[101], list(a1)], [[mark], list(a2)], [[120], list(a1)]]}
                yield {"op": "repr", "f": [[[mark, 97], list(a1)], [[mark, mark], list(a2)]]}
        # sums of two values that were both shown before the addition, every split point (so also a zero-run operand on
        # either side)
        for l in reprpool[::5] + [[[[97], list(ATTS[1])]], [[[97], list(ATTS[1])], [[98, 99], list(ATTS[2])], [[100], list(fmtlib.PLAIN)]]]:
            for j in range(len(l) + 1):
                for seen in (1, 0):
                    yield {"op": "repr", "f": l, "plus": j, "seen": seen}
        # styles switched on with truthy values other than True
        for tv in (1, 2, 3):
            for l in ([[[51, 32, 101], [0, 0, 2, 0, 0, 0, 0, 0]]], [[[97], [2, 0, 0, 0, 0, 2, 0, 0]], [[98], list(fmtlib.PLAIN)]],
                      [[[97, 98], [0, 5, 2, 0, 0, 0, 0, 2]]], [[[120], list(ATTS[1])], [[121], [0, 0, 0, 2, 0, 0, 0, 0]]]):
                yield {"op": "repr", "f": l, "truthy": tv}
        for t in REPR_TEXTS:
            for a in ATTS + [[8, 1, 2, 2, 2, 2, 2, 2]]:
                yield {"op": "repr", "f": [[[ord(c) for c in t], a]]}
                yield {"op": "repr", "f": [[[ord(c) for c in t], a], [[120], fmtlib.PLAIN]]}

    def execute(self, inp):
        ev = dict(inp)
        if inp["op"] == "eq":
            # every observation on operands of its own, built afresh (never rendered, unless this input is a warmed
            # one): comparing must not depend on whether a value's terminal string was computed before
            def pair():
                if inp.get("subx"):
                    # x is an instance of an application's FmtStr subclass, y of the base class (or a str)
                    saved = enc.WARM
                    enc.WARM = saved | 128
                    try:
                        x = spelled(inp["x"])
                    finally:
                        enc.WARM = saved & ~128
                    try:
                        return x, spelled(inp["y"])
                    finally:
                        enc.WARM = saved
                return spelled(inp["x"]), spelled(inp["y"])
            x, y = pair()
            ev["eq"] = int(bool(x == y))
            x, y = pair()
            ev["req"] = int(bool(y == x))
            x, y = pair()
            ev["ne"] = int(bool(x != y))
            x, y = pair()
            ev["inset"] = int(y in {x})
            x, y = pair()
            ev["indict"] = int(y in {x: 1})
            x, y = pair()
            ev["heq"] = int(hash(x) == hash(y))
            # the terminal string of a value is that of its runs (rendered from a fresh rebuild, not read from a memo)
            def term(z):
                from curtsies.formatstring import FmtStr, Chunk
                return str(FmtStr(*(Chunk(str(c.s), dict(c.atts)) for c in z.chunks))) if isinstance(z, FmtStr) else str(z)
            ev["strx"] = enc.enc_text(term(x))
            ev["stry"] = enc.enc_text(term(y))
        else:
            if inp.get("plus") is not None:
                # the value is the sum of two values (one of them possibly without any run) that were both shown -
                # repr() and str() taken - before they were added
                j = inp["plus"]
                left, right = enc.build_fmtstr(inp["f"][:j]), enc.build_fmtstr(inp["f"][j:])
                if inp.get("seen"):
                    repr(left), str(left), repr(right), str(right)
                f = left + right
                ev["f"] = enc.enc_fmtstr(f)
            elif inp.get("truthy"):
                # styles switched on with a truthy value that is neither True nor 1 (a count, a non-empty string)
                from curtsies.formatstring import FmtStr, Chunk
                val = [3, "yes", 2.5][inp["truthy"] - 1]
                f = FmtStr(*(Chunk(enc.dec_text(t), {k: (val if v is True else v) for k, v in enc.dec_atts(a).items()}) for t, a in inp["f"]))
            else:
                f = enc.build_fmtstr(inp["f"])
            ns = fmtfuncs_ns()
            src = repr(f)
            ev["src"] = enc.enc_text(src)
            ev["shape"] = shape_ok(src, set(ns))
            g = dict(ns)
            g["__builtins__"] = {}
            got = []
            ev["ev"] = fmtlib.enc_res(lambda: (got.append(eval(src, g)), got[-1])[1])
            # what the value and what its evaluated repr display: characters with the graphic state they are shown under
            ev["fshows"] = shown(str(f))
            ev["evshows"] = shown(str(got[-1])) if got else []
            if inp.get("truthy"):
                ev["f"] = inp["f"]          # a style stored as 3 / "yes" is a style that is on
        return ev

    def classify(self, ev):
        if ev["op"] == "eq":
            tx = [c for t, _ in ev["x"]["v"] for c in t]
            ty = [c for t, _ in ev["y"]["v"] for c in t]
            if tx == ty and ev["x"]["v"] != ev["y"]["v"]:
                return ("eq", str(ev["x"]), str(ev["y"]))
            return None
        if any(any(a) for _, a in ev["f"]):
            return ("repr", str(ev["f"]))
        return None

    def case_class(self, ev, v):
        if ev["op"] == "eq":
            return "eq:%s-%s" % (ev["x"]["k"], ev["y"]["k"])
        return "repr"

    def describe(self, ev, v):
        return str({k: ev[k] for k in ev})


CHECK = C19()

"""C04 - FSArray region assignment composites exactly the assigned block."""
import json

import common
import enc
from tracecheck import TraceCheck, parse_behaviours

PLAIN = [0] * 8
RED = [2, 0, 0, 0, 0, 0, 0, 0]
ONBLUE = [0, 5, 0, 0, 0, 0, 0, 0]


def frow(runs):
    return {"k": "f", "v": runs}


def srow(text):
    return {"k": "s", "v": [[[ord(c) for c in text], list(PLAIN)]]}


def rowvals(w):
    return [frow([]), srow(""), srow("a"), frow([[[98], RED]]), frow([[[97], PLAIN], [[98], RED]]), frow([[[99] * w, RED]]),
            srow("d" * (w + 1)), frow([[[], RED]]), srow("e" * max(0, w - 1))]


class _Hang(Exception):
    pass


class _time_limit:
    """an assignment that does not come back within a few seconds (it is building an astronomically tall array) is
    recorded as having raised `_Hang` instead of taking the harness down with it"""

    def __init__(self, seconds):
        self.seconds = seconds

    def _fire(self, signum, frame):
        raise _Hang("no answer within %d s" % self.seconds)

    def __enter__(self):
        import signal
        self.old = signal.signal(signal.SIGALRM, self._fire)
        signal.alarm(self.seconds)

    def __exit__(self, *exc):
        import signal
        signal.alarm(0)
        signal.signal(signal.SIGALRM, self.old)
        return False


def spelt(lo, hi, dim, sp):
    """the slice lo:hi written another way with the same meaning on an axis of length dim: sp 0 as given, 1 negative
    bounds where the bound lies inside the axis, 2 omitted bounds (None) where the bound is the axis's end, 3 both"""
    a, b = lo, hi
    if sp in (1, 3):
        if 0 <= lo < dim:
            a = lo - dim
        if 0 <= hi < dim:
            b = hi - dim
    if sp in (2, 3):
        if lo == 0:
            a = None
        if hi == dim:
            b = None
    return slice(a, b)


class C04(TraceCheck):
    pid = "C04"
    module = "FSArrayTrace"
    rule = ("histories of region assignments on a real FSArray: shapes 0..3 x 0..4 (constructor formatting none / bg), forms "
            "a[r0:r1, c0:c1] = block, a[r, c] = [x], a[r0:r1] = block, regions inside, straddling and beyond the height "
            "(r in 0..rows+2, c in 0..cols) and hanging over the right edge (column stops up to 2*cols+2), bounds also written as negative numbers and omitted (None), blocks with the right and wrong number of rows, rows shorter/equal/longer than the "
            "region, empty rows, given as list of str/FmtStr, as FSArray or as the target array itself, or as one block object the application keeps, edits in place and assigns again; rows holding zero-width characters with every region boundary around them; after every step the full row list is recorded; "
            "region and row reads are interleaved; fsarray(strings, width) construction. Sources: TLC-generated behaviours "
            "(MC_FSArray GenSpec) + all single assignments on 1x2/2x2/2x3 arrays pre-filled two ways + seeded random "
            "histories. distinct_nontrivial = distinct (shape, region, block row lengths, outcome) assignments")
    exhaustive = {"quick": False, "thorough": False}

    def design_runs(self, tier):
        cfg = ("SPECIFICATION Spec\nCONSTANT MaxRows = 2\nCONSTANT MaxCols = %d\nCONSTANT HistDepth = 3\nCONSTANT Emit = FALSE\n"
               "VIEW view\nINVARIANT AssignOk\nINVARIANT RowsNeverWider\nCHECK_DEADLOCK FALSE\n" % (2 if tier == "quick" else 3))
        return [dict(module="MC_FSArray", cfg=cfg, workers=8, timeout=3000)]

    def tlc_histories(self, tier, wd):
        num = 1500 if tier == "quick" else 20000
        cfg = ("SPECIFICATION GenSpec\nCONSTANT MaxRows = 3\nCONSTANT MaxCols = 4\nCONSTANT HistDepth = 6\nCONSTANT Emit = TRUE\n"
               "INVARIANT EmitBehaviour\nINVARIANT AssignOk\nCHECK_DEADLOCK FALSE\n")
        r = common.run_tlc("MC_FSArray", cfg, wd / "gen", workers=1, timeout=900, simulate=f"num={num}", depth=7,
                           extra=["-seed", str(common.seed() + 5)])
        if not r["ok"]:
            raise common.Machinery("MC_FSArray generator violated AssignOk:\n" + r["out"][-2000:])
        hists = []
        for k, beh in enumerate(parse_behaviours(r["out"])):
            if not beh or beh[0]["k"] != "init":
                continue
            steps = []
            for e in beh[1:]:
                blk = [frow([[list(x[0]), list(x[1])] for x in row]) for row in e["block"]]
                steps.append({"k": "assign", "r0": e["r0"], "r1": e["r1"], "c0": e["c0"], "c1": e["c1"], "block": blk,
                              "bk": "list", "form": "slice2"})
                if k % 2:
                    steps.append({"k": "read", "r0": 0, "r1": e["r1"] + 1, "c0": 0, "c1": beh[0]["w"]})
            hists.append({"h": beh[0]["h"], "w": beh[0]["w"], "fmt": k % 2, "steps": steps})
        return hists, {"states": r["generated"], "transitions": r["generated"]}

    def histories(self, tier, rng):
        import itertools
        # all single assignments on small pre-filled arrays
        for (h, w) in [(1, 2), (2, 2), (2, 3), (0, 2), (2, 0)]:
            vals = rowvals(w)
            for prefill in (None, "full", "short"):
                pre = []
                if prefill and h and w:
                    txt = "p" * w if prefill == "full" else "p" * max(1, w - 1)
                    pre = [{"k": "assign", "r0": 0, "r1": h, "c0": 0, "c1": w if prefill == "full" else max(1, w - 1),
                            "block": [srow(txt)] * h, "bk": "list", "form": "slice2"}]
                for r0 in range(0, h + 2):
                    for r1 in range(r0, min(r0 + 2, h + 2) + 1):
                        for c0 in range(0, w + 1):
                            for c1 in range(c0, w + 1):
                                nrows = r1 - r0
                                blocks = [list(c) for c in itertools.product(vals, repeat=nrows)] if nrows <= 1 else \
                                    [[rng.choice(vals) for _ in range(nrows)] for _ in range(4)]
                                blocks += [[rng.choice(vals) for _ in range(nrows + 1)]]
                                if nrows > 0:
                                    blocks += [[rng.choice(vals) for _ in range(nrows - 1)]]
                                if tier == "quick":
                                    blocks = rng.sample(blocks, min(len(blocks), 4))
                                for b in blocks:
                                    yield {"h": h, "w": w, "fmt": (r0 + c0) % 2, "steps": pre + [
                                        {"k": "assign", "r0": r0, "r1": r1, "c0": c0, "c1": c1, "block": b,
                                         "bk": "fsarray" if (r0 + c1 + len(b)) % 4 == 0 else "list", "form": "slice2"},
                                        {"k": "read", "r0": 0, "r1": h + 3, "c0": 0, "c1": w}]}
        # column stops past the array's width (a[r, c0:c0 + k] with the region hanging over the right edge, the stop
        # as far past the width as the start is from column 0 included): the region is what exists of it
        for (h, w) in [(1, 2), (2, 3), (1, 4), (2, 0), (0, 0), (1, 1)]:
            vals = rowvals(max(w, 2))
            for prefill in (None, "full", "short"):
                pre = []
                if prefill and w:
                    txt = "p" * w if prefill == "full" else "p" * max(1, w - 1)
                    pre = [{"k": "assign", "r0": 0, "r1": h, "c0": 0, "c1": len(txt), "block": [srow(txt)] * h, "bk": "list", "form": "slice2"}]
                for r0 in range(0, h + 1):
                    for c0 in range(0, w + 2):
                        for c1 in range(max(c0, w + 1), 2 * w + 3):
                            bs = [[v] for v in vals]
                            if tier == "quick":
                                bs = rng.sample(bs, min(len(bs), 3))
                            for b in bs:
                                yield {"h": h, "w": w, "fmt": (r0 + c1) % 2, "steps": pre + [
                                    {"k": "assign", "r0": r0, "r1": r0 + 1, "c0": c0, "c1": c1, "block": b,
                                     "bk": "fsarray" if (c0 + c1) % 5 == 0 else "list", "form": "slice2"},
                                    {"k": "read", "r0": 0, "r1": h + 2, "c0": 0, "c1": w + 2}]}
        # rows that hold zero-width characters (a combining mark after its letter, ZERO WIDTH SPACE, ZWJ): a cell is a cell -
        # every region boundary, also the ones right before and right after a mark
        marked = {"k": "f", "v": [[[101, 769, 120], [2, 0, 0, 0, 0, 0, 0, 0]], [[8203, 121, 8205], [0] * 8]]}
        for w in (6, 7):
            pre = [{"k": "assign", "r0": 0, "r1": 2, "c0": 0, "c1": 6, "block": [marked, marked], "bk": "list", "form": "slice2"}]
            for c0 in range(0, 6):
                for c1 in range(c0 + 1, 7):
                    for blk in ("Z" * (c1 - c0), "Z" * max(0, c1 - c0 - 1)):
                        yield {"h": 2, "w": w, "fmt": (c0 + c1) % 2, "steps": pre + [
                            {"k": "assign", "r0": 0, "r1": 1, "c0": c0, "c1": c1, "block": [srow(blk)], "bk": "list", "form": "slice2"},
                            {"k": "read", "r0": 0, "r1": 2, "c0": 0, "c1": w}, {"k": "read", "r0": 0, "r1": 1, "c0": c1, "c1": w}]}
        # the array pasted into itself: at its top, straddling its last row, below it - with the right and a wrong height
        for (h, w) in [(1, 2), (2, 3), (2, 2)]:
            for prefill in ("full", "short"):
                txt = "p" * w if prefill == "full" else "q" * max(1, w - 1)
                pre = [{"k": "assign", "r0": 0, "r1": h, "c0": 0, "c1": len(txt), "block": [srow(txt)] * h, "bk": "list", "form": "slice2"}]
                for r0 in range(0, h + 2):
                    for nrows in (h, h + 1, max(0, h - 1), 2 * h):
                        for (c0, c1) in ((0, w), (0, len(txt)), (1, w)):
                            yield {"h": h, "w": w, "fmt": (r0 + nrows) % 2, "steps": pre + [
                                {"k": "assign", "r0": r0, "r1": r0 + nrows, "c0": c0, "c1": c1, "block": [], "bk": "self", "form": "slice2"},
                                {"k": "read", "r0": 0, "r1": 3 * h + 3, "c0": 0, "c1": w}]}
        # single cells and one-column regions spelled with negative ints (a[r, -1], a[-1, c], a[r0:r1, -1]) on blank rows and
        # on rows that already show something, every column incl. the last
        for (h, w) in ((2, 3), (1, 1), (3, 4)):
            for pre in ([], [{"k": "assign", "r0": 0, "r1": h, "c0": 0, "c1": w, "block": [srow("p" * w)] * h, "bk": "list", "form": "slice2"}],
                        [{"k": "assign", "r0": 0, "r1": 1, "c0": 0, "c1": 1, "block": [srow("q")], "bk": "list", "form": "slice2"}]):
                for r in range(h):
                    for c in range(w):
                        rd = {"k": "read", "r0": 0, "r1": h, "c0": 0, "c1": w}
                        yield {"h": h, "w": w, "fmt": (r + c) % 2, "steps": pre + [
                            {"k": "assign", "r0": r, "r1": r + 1, "c0": c, "c1": c + 1, "block": [srow("z")], "bk": "list", "form": "cellneg", "negr": (r + c) % 2}, rd]}
                        yield {"h": h, "w": w, "fmt": 0, "steps": pre + [
                            {"k": "assign", "r0": 0, "r1": h, "c0": c, "c1": c + 1, "block": [srow("y")] * h, "bk": "list", "form": "colint", "negc": (r + 1) % 2}, rd]}
        # ONE block object kept by the application (a list of rows / an FSArray), updated in place and assigned again to
        # the same region - the second time with other rows, a too long row, another number of rows; also with another
        # assignment or a read in between, and to another region
        for held in (1, 2):
            for (h, w) in ((2, 6), (3, 5)):
                for (r0, c0) in ((0, 1), (1, 0)):
                    b1 = [srow("ab"), srow("cd")]
                    for b2 in ([srow("xy"), srow("")], [srow("cd"), srow("ab")], [frow([[[97, 98], [2, 0, 0, 0, 0, 0, 0, 0]]]), srow("cd")],
                               [srow("abcdefgh"), srow("c")], [srow("ab")], [srow("a"), srow("b"), srow("c")], [srow("ab"), srow("cd")]):
                        reg = {"k": "assign", "r0": r0, "r1": r0 + 2, "c0": c0, "c1": c0 + 2, "bk": "list", "form": "slice2", "held": held}
                        rd = {"k": "read", "r0": 0, "r1": h + 1, "c0": 0, "c1": w}
                        yield {"h": h, "w": w, "fmt": 0, "steps": [dict(reg, block=b1), dict(reg, block=b2), rd]}
                        yield {"h": h, "w": w, "fmt": 1, "steps": [dict(reg, block=b1), rd, dict(reg, block=b2), rd, dict(reg, block=b1), rd]}
                        yield {"h": h, "w": w, "fmt": 0, "steps": [dict(reg, block=b1), dict(reg, block=b2, c0=c0 + 1, c1=c0 + 3), dict(reg, block=b1), rd]}
                        yield {"h": h, "w": w, "fmt": 0, "steps": [dict(reg, block=b1), {"k": "assign", "r0": 0, "r1": 1, "c0": 0, "c1": 0, "block": [srow("")], "bk": "list", "form": "slice2"},
                                                                 dict(reg, block=b2), rd]}
        # neighbouring rows with the same terminal string but different cells (a red 'a' next to a row whose TEXT is the
        # escape-coded rendering of a red 'a'), filled / cleared with [row] * n (one block row object used for both)
        red_a = {"k": "f", "v": [[[97], [2, 0, 0, 0, 0, 0, 0, 0]]]}
        raw_a = {"k": "f", "v": [[[27, 91, 51, 49, 109, 97, 27, 91, 51, 57, 109], [0] * 8]]}
        for order in ((red_a, raw_a), (raw_a, red_a), (red_a, red_a)):
            for (c0, c1, txt) in ((5, 6, "x"), (0, 1, "y"), (11, 12, "z"), (2, 4, "uv")):
                yield {"h": 2, "w": 14, "fmt": 0, "steps": [
                    {"k": "assign", "r0": 0, "r1": 1, "c0": 0, "c1": 14, "block": [order[0]], "bk": "list", "form": "slice2"},
                    {"k": "assign", "r0": 1, "r1": 2, "c0": 0, "c1": 14, "block": [order[1]], "bk": "list", "form": "slice2"},
                    {"k": "assign", "r0": 0, "r1": 2, "c0": c0, "c1": c1, "block": [srow(txt), srow(txt)], "bk": "list", "form": "slice2", "sameobj": 1},
                    {"k": "read", "r0": 0, "r1": 2, "c0": 0, "c1": 14}]}
        # plain-str block rows that carry SGR sequences, written onto blank rows and onto rows ending before the region
        raw = {"k": "s", "v": [[[27, 91, 51, 49, 109, 97, 98, 27, 91, 51, 57, 109], [0] * 8]]}
        for w in (4, 6, 14):
            for pre in ([], [{"k": "assign", "r0": 0, "r1": 1, "c0": 0, "c1": 1, "block": [srow("x")], "bk": "list", "form": "slice2"}]):
                for (r0, c0) in ((0, 2), (1, 2), (3, 1), (0, 1)):
                    yield {"h": 2, "w": w, "fmt": 0, "steps": pre + [
                        {"k": "assign", "r0": r0, "r1": r0 + 1, "c0": c0, "c1": c0 + 2, "block": [raw], "bk": "list", "form": "slice2"},
                        {"k": "read", "r0": 0, "r1": r0 + 2, "c0": 0, "c1": w}]}
        # regions far below the last row (row numbers beyond 2^15 and 2^16): the array grows to them
        for (r0, c0) in ((40000, 1), (70000, 0)):
            yield {"h": 2, "w": 3, "fmt": 0, "steps": [
                {"k": "assign", "r0": r0, "r1": r0 + 2, "c0": c0, "c1": c0 + 2, "block": [srow("xy"), srow("z")], "bk": "list", "form": "slice2"},
                {"k": "assign", "r0": r0 - 5, "r1": r0 - 4, "c0": 0, "c1": 1, "block": [srow("q")], "bk": "list", "form": "slice2"},
                {"k": "read", "r0": r0 - 1, "r1": r0 + 3, "c0": 0, "c1": 3}]}
        # one row of 4..6 columns, every pair (thorough: sampled triples) of assignments from a small set of regions and
        # blocks - rows made of several runs with content to the right of the next region
        for w in (4, 5, 6):
            regs = [(c0, c1) for c0 in range(w) for c1 in range(c0 + 1, w + 1)]
            def blocks(c0, c1):
                n_ = c1 - c0
                return [[srow("p" * n_)], [frow([[[113] * n_, RED]])], [srow("s" * max(0, n_ - 1))]]
            steps1 = [(r, b) for r in regs for b in blocks(*r)]
            pairs = [(x, y) for x in steps1 for y in steps1]
            if tier == "quick":
                pairs = rng.sample(pairs, min(len(pairs), 1200 if w < 6 else 600))
            for (r1, b1), (r2, b2) in pairs:
                st = [{"k": "assign", "r0": 0, "r1": 1, "c0": r1[0], "c1": r1[1], "block": b1, "bk": "list", "form": "slice2"},
                      {"k": "assign", "r0": 0, "r1": 1, "c0": r2[0], "c1": r2[1], "block": b2, "bk": "list", "form": "slice2"}]
                if tier == "thorough" and (r1[0] + r2[1]) % 3 == 0:
                    r3, b3 = rng.choice(steps1)
                    st.append({"k": "assign", "r0": 0, "r1": 1, "c0": r3[0], "c1": r3[1], "block": b3, "bk": "list", "form": "slice2"})
                yield {"h": 1, "w": w, "fmt": 0, "steps": st}
        # fsarray(strings, width) construction and whole-row reads
        for k in range(300 if tier == "quick" else 6000):
            w = rng.randrange(0, 5)
            vals = rowvals(max(1, w))
            strings = [rng.choice(vals) for _ in range(rng.randrange(0, 4))]
            mx = max([sum(len(t) for t, _ in s_["v"]) for s_ in strings] + [0])
            width = rng.choice([-1, mx, mx + 1, max(0, mx - 1), w])
            steps = [{"k": "make", "strings": strings, "width": width, "fmt": k % 2}]
            yield {"h": 1, "w": 1, "fmt": 0, "steps": steps}
        for k in range(200 if tier == "quick" else 4000):
            h, w = rng.randrange(1, 4), rng.randrange(1, 5)
            vals = rowvals(w)
            b = [rng.choice([v for v in vals if sum(len(t) for t, _ in v["v"]) <= w]) for _ in range(h)]
            yield {"h": h, "w": w, "fmt": k % 2, "steps": [
                {"k": "assign", "r0": 0, "r1": h, "c0": 0, "c1": w, "block": b, "bk": "list", "form": "slice2"}] +
                [{"k": "rowread", "r": r} for r in range(h)]}
        # random histories with all three forms
        for k in range(1200 if tier == "quick" else 40000):
            h, w = rng.randrange(0, 4), rng.randrange(0, 5)
            steps = []
            ch = h
            for _ in range(rng.randrange(1, 7)):
                vals = rowvals(max(1, w))
                form = rng.choice(["slice2", "slice2", "cell", "rows", "read"])
                if form == "read":
                    r0 = rng.randrange(0, ch + 1)
                    steps.append({"k": "read", "r0": r0, "r1": rng.randrange(r0, ch + 2), "c0": 0 if w == 0 else rng.randrange(0, w),
                                  "c1": w if rng.random() < 0.5 else rng.randrange(0, w + 1)})
                    continue
                if form == "cell":
                    if w == 0:
                        continue
                    r0, c0 = rng.randrange(0, ch + 3), rng.randrange(0, w)
                    r1, c1 = r0 + 1, c0 + 1
                    b = [rng.choice([srow("x"), frow([[[121], RED]]), srow(""), srow("zz")])]
                elif form == "rows":
                    r0 = rng.randrange(0, ch + 2)
                    r1 = rng.randrange(r0, r0 + 3)
                    c0, c1 = 0, w
                    b = [rng.choice(vals) for _ in range(rng.choice([r1 - r0, r1 - r0, r1 - r0 + 1]))]
                else:
                    r0 = rng.randrange(0, ch + 2)
                    r1 = rng.randrange(r0, r0 + 3)
                    c0 = rng.randrange(0, w + 1)
                    c1 = rng.randrange(c0, w + 1)
                    b = [rng.choice(vals) for _ in range(rng.choice([r1 - r0, r1 - r0, r1 - r0, max(0, r1 - r0 - 1), r1 - r0 + 1]))]
                steps.append({"k": "assign", "r0": r0, "r1": r1, "c0": c0, "c1": c1, "block": b,
                              "bk": "fsarray" if rng.random() < 0.2 else "list", "form": form})
                ch = max(ch, r1)
            yield {"h": h, "w": w, "fmt": k % 2, "steps": steps}

    def _spell(self, hist):
        if hist.get("steps") and any(st.get("r0", 0) > 1000 for st in hist["steps"]):
            return hist
        # the same regions written with negative and omitted bounds (every history gets one spelling for its reads,
        # every third one also for its assignments)
        import zlib
        h = zlib.crc32(json.dumps(hist, sort_keys=True, default=str).encode())
        sp = h % 4
        for k, st in enumerate(hist.get("steps", [])):
            if st.get("k") == "read" or (st.get("k") == "assign" and st.get("form") in ("slice2", "rows") and (h // 4) % 3 == 0):
                st.setdefault("sp", sp)
        return hist

    def run_history(self, hist):
        hist = self._spell(hist)
        from curtsies.formatstringarray import FSArray, fsarray
        from curtsies.formatstring import fmtstr
        # constructor formatting arguments in every spelling the constructor takes: a keyword, a positional colour
        # name, a positional background + style (all "blue background"-like so that the blank row stays comparable)
        import zlib
        spell = zlib.crc32(json.dumps(hist, sort_keys=True, default=str).encode()) % 3
        fargs, kw = ((), {})
        if hist["fmt"]:
            fargs, kw = [((), {"bg": "blue"}), (("on_blue",), {}), (("on_blue", "bold"), {"fg": "red"})][spell]
        a = FSArray(hist["h"], hist["w"], *fargs, **kw)
        blank = enc.enc_fmtstr(fmtstr("", *fargs, **dict(kw)))

        def snap():
            return [enc.enc_fmtstr(r) if not isinstance(r, str) else [[enc.enc_text(r), list(PLAIN)]] for r in a.rows]
        ev = []
        held_list, held_arr = [], []
        tr = {"h": hist["h"], "w": hist["w"], "fmt": hist["fmt"], "blank": blank, "rows0": snap(), "ev": ev}
        for st in hist["steps"]:
            rec = dict(st)
            rec["exc"] = ""
            if st["k"] == "assign":
                block = [enc.build_value(b) for b in st["block"]]
                if any(isinstance(b, str) and ("\x1b" in b or "\x9b" in b) for b in block):
                    # a plain-str block row that carries SGR sequences is parsed when it is written: the verdict is
                    # computed for the equivalent assignment of the parsed rows
                    from curtsies.formatstring import FmtStr
                    rec["block"] = [enc.enc_value(FmtStr.from_str(b)) if isinstance(b, str) else enc.enc_value(b) for b in block]
                if st.get("sameobj"):
                    # [row] * n: equal block rows are one and the same object
                    for j in range(1, len(block)):
                        if st["block"][j] == st["block"][j - 1]:
                            block[j] = block[j - 1]
                if st.get("held"):
                    # the application keeps ONE block object (a list of rows, or an FSArray) and updates it in place
                    # between assignments: what is written is what the object holds at the time of the assignment
                    if st["held"] == 1:
                        held_list[:] = block
                        block = held_list
                    else:
                        if not held_arr or st.get("rebuild"):
                            held_arr[:] = [fsarray(block)]
                        else:
                            try:
                                held_arr[0][0:len(block), 0:held_arr[0].width] = block
                            except Exception:  # noqa
                                held_arr[:] = [fsarray(block)]
                        block = held_arr[0]
                        rec["block"] = [enc.enc_value(r) for r in block]
                if st.get("bk") == "self":
                    # the block is the target array itself (pasting an array into / below itself)
                    block = a
                    rec["block"] = [enc.enc_value(r) for r in a.rows]
                elif st.get("bk") == "fsarray":
                    try:
                        block = fsarray(block)
                        rec["block"] = [enc.enc_value(r) for r in block]
                    except Exception:  # noqa
                        rec["bk"] = "list"
                try:
                  with _time_limit(4):
                    if st["form"] == "cell":
                        a[st["r0"], st["c0"]] = block
                    elif st["form"] == "cellneg":
                        # the same cell spelled with negative ints (counted from the end), where that is possible
                        r = st["r0"] - len(a.rows) if st["r0"] < len(a.rows) and st.get("negr", 1) else st["r0"]
                        c = st["c0"] - a.width if st["c0"] < a.width else st["c0"]
                        a[r, c] = block
                    elif st["form"] == "colint":
                        # rows as a slice, the column as a plain (possibly negative) int
                        c = st["c0"] - a.width if st["c0"] < a.width and st.get("negc", 1) else st["c0"]
                        a[st["r0"]:st["r1"], c] = block
                    elif st["form"] == "rows":
                        a[spelt(st["r0"], st["r1"], len(a.rows), st.get("sp", 0))] = block
                    else:
                        a[spelt(st["r0"], st["r1"], len(a.rows), st.get("sp", 0)), spelt(st["c0"], st["c1"], a.width, st.get("sp", 0))] = block
                except Exception as e:  # noqa
                    rec["exc"] = enc.exc_name(e)
                rec["rows"] = snap()
            elif st["k"] == "make":
                strings = [enc.build_value(x) for x in st["strings"]]
                margs, mkw = [((), {"bg": "blue"}), (("on_blue",), {}), (("on_blue", "bold"), {"fg": "red"})][spell] if st.get("fmt") else ((), {})
                rec["rows"], rec["ncols"] = [], 0
                try:
                    arr = fsarray(strings, None if st["width"] == -1 else st["width"], *margs, **dict(mkw))
                    rec["rows"] = [enc.enc_fmtstr(r) for r in arr.rows]
                    rec["ncols"] = arr.width
                    if arr.shape != (len(arr.rows), arr.width) or arr.height != len(arr.rows):
                        rec["exc"] = "ShapeInconsistent"
                except Exception as e:  # noqa
                    rec["exc"] = enc.exc_name(e)
                if st.get("fmt"):
                    # constructor formatting applies to plain str items (documented fmtstr(s, *args, **kwargs));
                    # the statement only says rows show the strings: log what was asked, with that formatting
                    rec["strings"] = [x if x["k"] == "f" else enc.enc_value(__import__("curtsies").fmtstr(enc.build_value(x), *margs, **dict(mkw))) for x in st["strings"]]
            elif st["k"] == "rowread":
                rec["got"] = []
                try:
                    rec["got"] = enc.enc_fmtstr(a[st["r"]])
                except Exception as e:  # noqa
                    rec["exc"] = enc.exc_name(e)
                rec["rows"] = snap()
            else:
                rec["got"] = []
                try:
                    got = a[spelt(st["r0"], st["r1"], len(a.rows), st.get("sp", 0)), spelt(st["c0"], st["c1"], a.width, st.get("sp", 0))]
                    rec["got"] = [enc.enc_fmtstr(g) for g in got]
                except Exception as e:  # noqa
                    rec["exc"] = enc.exc_name(e)
                rec["rows"] = snap()
            ev.append(rec)
        return tr

    def classes(self, tr):
        res = []
        for e in tr["ev"]:
            if e["k"] == "assign":
                res.append((tr["w"], len(e["rows"]), e["r0"], e["r1"], e["c0"], e["c1"],
                            tuple(sum(len(t) for t, _ in b["v"]) for b in e["block"]), bool(e["exc"])))
        return res

    def case_class(self, tr, v):
        l = v[2]
        e = tr["ev"][l - 1] if 0 < l <= len(tr["ev"]) else {}
        if e.get("k") != "assign":
            return e.get("k", "?")
        prev_h = len(tr["rows0"]) if l == 1 else len(tr["ev"][l - 2]["rows"])
        beyond = e["r1"] > prev_h
        return f"assign:{e['form']}:{'beyond-height' if beyond else 'inside'}:{'raised' if e['exc'] else 'accepted'}"

    def describe(self, tr, v):
        l = v[2]
        before = tr["rows0"] if l <= 1 else tr["ev"][l - 2]["rows"]
        return json.dumps({"w": tr["w"], "rows_before": before, "event": tr["ev"][l - 1] if 0 < l <= len(tr["ev"]) else None})[:1300]


CHECK = C04()

"""./check setup - builds nothing (Python + TLA+ are interpreted) but verifies that the tool chain the
checks rely on is present and that every specification module parses."""
import os
import subprocess
import sys
from concurrent.futures import ThreadPoolExecutor

import common


def sany(path):
    p = subprocess.run(["java", "-cp", common.TLA_CP, "tla2sany.SANY", str(path)], cwd=str(common.SPEC),
                       capture_output=True, text=True, timeout=300)
    out = p.stdout + p.stderr
    ok = p.returncode == 0 and "Semantic errors" not in out and "Parse Error" not in out and "Fatal" not in out \
        and "*** Errors" not in out and "Could not" not in out
    return path.name, ok, out


def run():
    common.WORK.mkdir(exist_ok=True)
    common.EVID.mkdir(exist_ok=True)
    mods = sorted(common.SPEC.glob("*.tla"))
    bad = 0
    with ThreadPoolExecutor(max_workers=8) as ex:
        for name, ok, out in ex.map(sany, mods):
            if not ok:
                bad += 1
                print(f"SANY failed on {name}:\n{out[-1500:]}")
    print(f"setup: {len(mods)} TLA+ modules parsed, {bad} failed")
    # assumptions about the environment
    try:
        import cwcwidth
        widths = {0x61: 1, 0x20: 1, 0xFF25: 2, 0x65E5: 2, 0x1F600: 2, 0x0301: 0, 0x200B: 0, 0x0E31: 0, 0x200D: 0, 0x1160: 0,
                  0x3000: 2, 0x302E: 2, 0x1BAA: 1, 0xA0: 1, 0xAD: 1, 0xE0B0: 1, 0x2003: 1}
        for cp, w in widths.items():
            if cwcwidth.wcwidth(chr(cp)) != w:
                print(f"setup: width assumption broken for U+{cp:04X}")
                bad += 1
    except ImportError:
        print("setup: cwcwidth missing")
        bad += 1
    # Wrap.tla's WhiteSpace is what Python's \s matches on str
    import re
    pyws = {c for c in range(0x110000) if re.match(r"\s", chr(c))}
    specws = {9, 10, 11, 12, 13, 28, 29, 30, 31, 32, 133, 160, 5760, 8232, 8233, 8239, 8287, 12288} | set(range(8192, 8203))
    if pyws != specws:
        print(f"setup: whitespace assumption broken: {sorted(pyws ^ specws)}")
        bad += 1
    try:
        import pty
        m, s = pty.openpty()
        os.close(m)
        os.close(s)
    except OSError as e:
        print(f"setup: no pty available: {e}")
        bad += 1
    try:
        common.import_repo()
    except Exception as e:  # noqa
        print(f"setup: cannot import curtsies from {common.REPO}: {e}")
        bad += 1
    return 0 if bad == 0 else 2

"""python3-vt harness/validate.py : validates MANIFEST.json and evidence/*.json against the schemas."""
import json, glob, sys
import jsonschema
ok = True
def v(path, schema):
    global ok
    try:
        jsonschema.validate(json.load(open(path)), json.load(open(schema)))
    except Exception as e:
        ok = False
        print("INVALID", path, str(e)[:300])
v("/verif/MANIFEST.json", "/root/.vp/MANIFEST.schema.json")
for p in sorted(glob.glob("/verif/evidence/*.json")):
    v(p, "/root/.vp/EVIDENCE.schema.json")
print("all valid" if ok else "some invalid")
sys.exit(0 if ok else 1)

"""C15 - str methods on a FmtStr agree with str on its text."""
import re

import enc
import fmtlib
from fmtlib import layouts
from purecheck import PureCheck

ALPHA = (97, 98, 32, 10, 44)  # a b space newline comma
ATTS = [fmtlib.PLAIN, fmtlib.RED, fmtlib.BOLD_ON_BLUE]
SEPS = [",", " ", "a", "ab", ", ", "\n", "b,", "aa"]
REGEXES = [r",+", r"\s+", r"[ab]", r"a|,", r"b\n?",
           # separators that can match zero characters (look-around, word boundary, optional, starred): re.split cuts there too
           r"(?=b)", r"\b", r",?", r" *", r"(?<=a)", r"",
           # anchors: only the very start / end of the text unless the caller asks for multi-line matching himself
           r"^a", r",$", r"^", r"$", r"\s+$", r"^b|,$", r"(?m)^a", r"\Aa", r"b\Z"]
DELEGATED = [
    ("upper", ()), ("lower", ()), ("title", ()), ("swapcase", ()), ("capitalize", ()),
    ("strip", ()), ("lstrip", ()), ("rstrip", ()), ("strip", ("a ",)), ("rstrip", (",\n",)),
    ("center", (0,)), ("center", (4,)), ("center", (7, "*")), ("replace", ("a", "xy")), ("replace", (",", "")),
    ("replace", ("ab", "b")), ("zfill", (5,)), ("expandtabs", ()), ("find", ("a",)), ("find", (",", 1)), ("rfind", ("b",)),
    ("index", ("b",)), ("count", ("a",)), ("count", ("",)), ("startswith", ("a",)), ("endswith", (",",)),
    ("isalpha", ()), ("isspace", ()), ("islower", ()), ("partition", (",",)), ("rpartition", (" ",)), ("rsplit", (",",)),
    ("rsplit", (None, 1)), ("casefold", ()), ("removeprefix", ("a",)), ("removesuffix", (",",)),
    # the rest of str's public methods that __getattr__ hands through (one call each at least)
    ("encode", ()), ("encode", ("ascii", "replace")), ("format", ()), ("format_map", ({},)), ("isascii", ()), ("isdecimal", ()),
    ("isdigit", ()), ("isidentifier", ()), ("isnumeric", ()), ("isprintable", ()), ("istitle", ()), ("isupper", ()),
    ("isalnum", ()), ("rindex", ("a",)), ("translate", ({97: 98, 44: None},)), ("lstrip", ("a",)), ("expandtabs", (3,)),
    ("maketrans", ("ab", "ba")), ("rsplit", (" ",)), ("replace", ("a", "", 1)), ("count", ("a", 1)), ("find", ("",)),
    # arguments of other accepted types and forms: a tuple of alternatives, start / end positions (negative too)
    ("startswith", (("a", ","),)), ("endswith", (("b", "\n"),)), ("endswith", (("a", "b"), 0, 1)), ("startswith", ("b", 1)),
    ("startswith", ((),)), ("count", ("a", 0, 2)), ("find", ("a", -2)), ("rfind", ("b", 0, -1)), ("index", ("a", 0)),
    ("center", (5, " ")), ("strip", (None,)), ("translate", (str.maketrans("a", "b"),)), ("format", ((1, 2),)),
]


def enc_texts(lst):
    return [enc.enc_text(x) for x in lst]


class C15(PureCheck):
    pid = "C15"
    subst_every = 6
    warm_every = 3
    rule = ("layouts with >=1 run: all single-run layouts of length 0..2 + sampled 2- and 3-run layouts (quick) / all <=2-run "
            "layouts + sampled 3-run (thorough) over {a, b, space, newline, comma} x {plain, red, bold+on_blue}; split with 8 "
            "separators (present/absent/adjacent/at the ends) and 20 group-free regexes (9 of them anchored, 6 able to match zero characters: look-ahead/behind, word boundary, optional, starred, empty), 5 separators with regex metacharacters used both literally and as regexes, splitlines with keepends False/True (also over every line boundary str.splitlines knows: CR, CR LF, VT, FF, FS, GS, RS, NEL, LS, PS), "
            "ljust/rjust with widths below/at/above the length with and without fill, 71 delegated str method calls (every public str method that __getattr__ hands through at least once); Python's "
            "own answer on the plain text is logged with each event as the reference. distinct_nontrivial = distinct "
            "(layout, method, args) with a formatted or multi-run operand")
    exhaustive = {"quick": False, "thorough": False}

    def design_runs(self, tier):
        cfg = ("SPECIFICATION Spec\nCONSTANT MaxRuns = 2\nCONSTANT MaxLen = %d\nINVARIANT SplitOk\nINVARIANT SplitlinesOk\nCHECK_DEADLOCK FALSE\n" % (2 if tier == "quick" else 3))
        return [dict(module="MC_StrMethods", cfg=cfg, workers=8, timeout=3000)]

    def inputs(self, tier, rng):
        L1 = list(layouts(1, 2, alphabet=ALPHA, atts=ATTS, min_runs=1))
        L2 = [l for l in layouts(2, 2, alphabet=ALPHA, atts=ATTS, min_runs=2)]
        runs = [[list(t), list(a)] for t in fmtlib.texts_upto(ALPHA, 2) for a in ATTS]
        if tier == "thorough":
            pool = L1 + L2[::2] + [[rng.choice(runs) for _ in range(3)] for _ in range(3000)]
        else:
            pool = L1 + rng.sample(L2, 350) + [[rng.choice(runs) for _ in range(3)] for _ in range(150)]
        # separators that mean different things as a literal and as a regular expression, each used in both
        # modes (in both orders) within this one process
        runs_m = [[list(t), list(a)] for t in fmtlib.texts_upto((97, 46, 32, 43), 3, 1) for a in ATTS[:2]]
        for k in range(120 if tier == "quick" else 2500):
            f = [rng.choice(runs_m) for _ in range(rng.choice([1, 2]))]
            for sep in (".", "a.", " +", ".+", "a+"):
                for regex in ((0, 1) if k % 2 else (1, 0)):
                    yield {"op": "split", "f": f, "sep": enc.enc_text(sep), "regex": regex}
        # padding counts characters, not columns: texts with double-width and combining characters
        for k, t in enumerate(([65317], [97, 65317, 98], [26085, 26085], [97, 769], [128512, 32], [65317, 10, 97])):
            for a in ATTS:
                f = [[list(t), list(a)]] if k % 2 else [[list(t[:1]), list(a)], [list(t[1:]), list(ATTS[0])]]
                n = len(t)
                for side in ("ljust", "rjust"):
                    for w in (0, n, n + 1, n + 2, n + 5):
                        yield {"op": "just", "f": f, "side": side, "w": w, "fill": 0}
                        yield {"op": "just", "f": f, "side": side, "w": w, "fill": 42}
        # a style explicitly None on one run (bold=flag or None) and absent on another: not an attribute all characters share
        NONE_BOLD = [2, 0, 3, 0, 0, 0, 0, 0]
        for f in ([[[97, 98], NONE_BOLD], [[98, 97], list(ATTS[1])]], [[[97], list(ATTS[1])], [[98, 32], NONE_BOLD]],
                  [[[97, 98], NONE_BOLD]], [[[], list(ATTS[0])], [[97], NONE_BOLD], [[98], list(ATTS[2])]]):
            n = fmtlib.vlen(f)
            for k, (m, args) in enumerate(DELEGATED):
                yield {"op": "delegated", "f": f, "m": m, "argi": k}
            for side in ("ljust", "rjust"):
                for w in (n, n + 2):
                    yield {"op": "just", "f": f, "side": side, "w": w, "fill": 0}
                    yield {"op": "just", "f": f, "side": side, "w": w, "fill": 42}
        # join (natively implemented): items that are str, FmtStr, FmtStr without any run - leading, in the middle, last
        Z = {"k": "f", "v": []}
        A = {"k": "s", "v": [[[97], [0] * 8]]}
        B = {"k": "f", "v": [[[98, 98], list(ATTS[1])]]}
        E = {"k": "s", "v": [[[], [0] * 8]]}
        for sep in ([[[44, 32], list(ATTS[0])]], [[[45], list(ATTS[2])]], [], [[[], list(ATTS[1])]]):
            for items in ([Z, A], [Z, Z, B, A], [A, Z, B], [A, B, Z], [Z], [Z, Z], [E, A], [A, E], [B, A, B], []):
                for it in (0, 2, 3, 5):
                    yield {"op": "join", "sep": sep, "items": items, "it": it}
        # every line boundary str.splitlines knows (CR, CR LF, VT, FF, FS, GS, RS, NEL, LS, PS besides LF), at the
        # start, inside, doubled and at the end of the text, formatting changing at and inside the boundary
        for b in ([13], [13, 10], [11], [12], [28], [29], [30], [133], [8232], [8233], [10, 13]):
            for text in ([97] + b + [98], b + [97], [97] + b, [97] + b + b + [98], b, [97] + b + [98, 10], [97, 10] + b + [98]):
                for cut in sorted({0, 1, 2, len(text)}):
                    runs = [[text[:cut], list(ATTS[1])], [text[cut:], list(ATTS[2])]]
                    for ke in (0, 1):
                        yield {"op": "splitlines", "f": runs, "keepends": ke}
        for f in pool:
            n = fmtlib.vlen(f)
            for sep in SEPS:
                yield {"op": "split", "f": f, "sep": enc.enc_text(sep), "regex": 0}
            for rx in REGEXES:
                yield {"op": "split", "f": f, "sep": enc.enc_text(rx), "regex": 1}
            for ke in (0, 1):
                yield {"op": "splitlines", "f": f, "keepends": ke}
            for side in ("ljust", "rjust"):
                for w in sorted({0, max(0, n - 1), n, n + 1, n + 3}):
                    yield {"op": "just", "f": f, "side": side, "w": w, "fill": 0}
                    yield {"op": "just", "f": f, "side": side, "w": w, "fill": 42}
            for k, (m, args) in enumerate(DELEGATED):
                yield {"op": "delegated", "f": f, "m": m, "argi": k}

    def execute(self, inp):
        if inp["op"] == "join":
            return fmtlib.exec_op(inp)
        ev = dict(inp)
        f = enc.build_fmtstr(inp["f"])
        text = "".join(chr(c) for t, _ in inp["f"] for c in t)
        op = inp["op"]
        if op == "split":
            sep = enc.dec_text(inp["sep"])
            if inp["regex"]:
                ev["res"] = fmtlib.enc_list_res(lambda: f.split(sep, regex=True))
                ev["ref"] = enc_texts(re.split(sep, text))
                ms = list(re.finditer(sep, text))
                ev["ranges"] = [[a, b] for a, b in zip([0] + [m.end() for m in ms], [m.start() for m in ms] + [len(text)])]
            else:
                ev["res"] = fmtlib.enc_list_res(lambda: enc.call(f.split, sep))
                ev["ref"] = enc_texts(text.split(sep))
                ev["ranges"] = []
        elif op == "splitlines":
            ev["res"] = fmtlib.enc_list_res(lambda: enc.call(f.splitlines, bool(inp["keepends"])))
            ev["ref"] = enc_texts(text.splitlines(bool(inp["keepends"])))
        elif op == "just":
            args = (inp["w"],) + ((chr(inp["fill"]),) if inp["fill"] else ())
            ev["res"] = fmtlib.enc_res(lambda: enc.call(getattr(f, inp["side"]), *args))
            ev["ref"] = enc.enc_text(getattr(text, inp["side"])(*args))
        else:
            m, args = DELEGATED[inp["argi"]]
            ev["args"] = repr(args)
            from curtsies.formatstring import FmtStr
            if not hasattr(text, m):
                m = "upper"
            try:
                ref = getattr(text, m)(*args)
                if isinstance(ref, str):
                    ev["refkind"], ev["reftexts"], ev["ref"] = "text", [enc.enc_text(ref)], []
                elif isinstance(ref, list):
                    ev["refkind"], ev["reftexts"], ev["ref"] = "list", enc_texts(ref), []
                else:
                    ev["refkind"], ev["reftexts"], ev["ref"] = "other", [], enc.enc_text(repr(ref))
            except Exception as e:  # noqa
                ev["refkind"], ev["reftexts"], ev["ref"] = "exc", [], enc.enc_text(type(e).__name__)
            try:
                got = getattr(f, m)(*args)
                if isinstance(got, FmtStr):
                    ev["kind"], ev["vs"], ev["got"] = "text", [enc.enc_fmtstr(got)], []
                elif isinstance(got, list) and all(isinstance(x, FmtStr) for x in got):
                    ev["kind"], ev["vs"], ev["got"] = "list", [enc.enc_fmtstr(x) for x in got], []
                else:
                    ev["kind"], ev["vs"], ev["got"] = "other", [], enc.enc_text(repr(got))
            except Exception as e:  # noqa
                ev["kind"], ev["vs"], ev["got"] = "exc", [], enc.enc_text(type(e).__name__)
        return ev

    def classify(self, ev):
        if ev["op"] == "join":
            return ("join", str(ev["sep"]), str(ev["items"]))
        f = ev["f"]
        if len(f) < 2 and not any(any(a) for _, a in f):
            return None
        return (ev["op"], str(f), str(ev.get("sep")), ev.get("regex"), ev.get("keepends"), ev.get("side"), ev.get("w"),
                ev.get("fill"), ev.get("argi"))

    def case_class(self, ev, v):
        op = ev["op"]
        if op == "join":
            return "join"
        f = ev["f"]
        text = "".join(chr(c) for t, _ in f for c in t)
        if op == "splitlines":
            return f"splitlines:keepends={ev['keepends']}:{'ends-with-newline' if text.endswith(chr(10)) else 'no-trailing-newline'}"
        if op == "delegated":
            first_empty = bool(f) and not f[0][0]
            return f"delegated:{'first-run-empty' if first_empty else 'first-run-nonempty'}"
        if op == "just":
            return f"just:{ev['side']}:{'fill' if ev['fill'] else 'nofill'}"
        return op + (":regex" if ev.get("regex") else "")

    def describe(self, ev, v):
        return str({k: ev[k] for k in ev})[:900]


CHECK = C15()

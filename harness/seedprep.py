"""Prepare a round of seeded changes: one scratch git worktree of /repo per property under /tmp/wt/<pid><suffix> holding
PROPERTY.txt (the property as given), KNOWN.txt (what every recorded change for that property does and needs - so the
author stays away from it) and TASK.txt (the brief).  Nothing from /verif's machinery is copied.
usage: seedprep.py <suffix> [style]      style: realistic (default) | history | api | data | interaction"""
import json
import os
import subprocess
import sys

VERIF = os.path.dirname(os.path.dirname(os.path.abspath(__file__)))

STYLES = {
    "realistic": """Make ONE small change to the library of the kind a maintainer could plausibly commit and a reviewer could plausibly
approve - a fix with a side effect, a small feature, a refactor, a performance tweak (cache, fast path, early return), a
compatibility shim, tightened or loosened validation, a clean-up of a TODO - that BREAKS the property in PROPERTY.txt, but only
for inputs or call histories that are uncommon.""",
    "history": """Make ONE small, plausible change to the library (state kept between calls, a cache, lazily computed fields, reuse of an
object, an optimisation that remembers what was done last time) that BREAKS the property in PROPERTY.txt only after a particular
HISTORY of calls - the same final call on a fresh object still behaves correctly.""",
    "api": """Make ONE small, plausible change to the library that BREAKS the property in PROPERTY.txt only for an unusual but legal way
of CALLING the public API - an argument given by keyword instead of position, an optional argument, a default, an argument of
another accepted type (str vs FmtStr, list vs FSArray, tuple vs list, subclass), an extreme but legal value (0, negative,
past the end, empty, very large), an alternative entry point to the same functionality.""",
    "data": """Make ONE small, plausible change to the library that BREAKS the property in PROPERTY.txt only for particular DATA - found by
reading which constants, tables, regular expressions, character classes and size limits the code relies on: specific characters or
character classes (Unicode categories, control characters, zero-width / wide / combining characters, digits or letters that look
like parts of escape sequences), specific numeric values or sizes (0, 1, exactly an internal buffer or read size, a power of two,
very large), specific attribute or option combinations.""",
    "interaction": """Make ONE small, plausible change to the library that BREAKS the property in PROPERTY.txt only when TWO (or three) features
that each still work alone are used TOGETHER in one call or one short sequence of calls (for example: wide characters + a formatting
change + wrapping; paste detection + a scheduled event; hide_cursor=False + scrolling; a str operand + an empty run + a boundary
position). Each feature on its own must behave exactly as before.""",
}

TASK = """You are working in a scratch git worktree of the Python library `curtsies` in this directory ({wt}). Work ONLY inside
this directory. Never read or touch /repo or /verif or any other worktree. No network. Use /venv/bin/python.

Files here: PROPERTY.txt - a semantic property of the library that holds on this tree. KNOWN.txt - changes that other people
have already made against this property (what each does, and what it needs to show up).

Your task: {style}

Requirements:
(a) The repository's test suite must still pass with your change: `/venv/bin/python -m pytest -q -p no:cacheprovider` must report
    77 passed (skips are fine). Do not edit tests.
(b) The change is small (a few lines to ~25), touches only files under curtsies/, and everyday use of the library (the
    common inputs, the examples in the docstrings) behaves exactly as before.
(c) Before choosing, read the code the property is about and list for yourself every branch, argument form, boundary and
    piece of state it has. Then read KNOWN.txt and choose a spot, a trigger and an idea that NONE of the known changes has
    used - not a variation of one of them. The more different from the known ones, the better.
(d) Whether the property breaks must depend only on the inputs and the history of calls made through the public API - not on
    environment variables, interpreter flags, threads racing, garbage collection timing, wall-clock time or file descriptor numbers.
(e) The violation must be a violation of the property AS WRITTEN in PROPERTY.txt (statement + quantifier), not of some
    stronger expectation.

Deliver, in this directory:
- the change itself, left UNCOMMITTED in the working tree, and saved with `git diff -- curtsies > patch.diff`;
- `demo.py`: a self-contained script (run as `/venv/bin/python demo.py` from this directory) that exercises the public API,
  prints what goes wrong and exits 1 with your change, and prints "ok" and exits 0 without it (check both: `git apply -R
  patch.diff`, run, `git apply patch.diff`, run). It should also show that a few everyday inputs are unaffected. If the
  property is about terminals, use os.openpty() or in-memory streams; no real tty is available.
Do not use `git stash`. Do not commit.

When done, report briefly: (1) the change, (2) exactly what it needs to manifest and why that is uncommon, (3) the commands you
ran and their results.
"""


def main():
    suffix = sys.argv[1]
    style = sys.argv[2] if len(sys.argv) > 2 else "realistic"
    props = [json.loads(l) for l in open(os.path.join(VERIF, "properties.jsonl"))]
    metas = {}
    sd = os.path.join(VERIF, "seeded")
    for n in sorted(os.listdir(sd)):
        mp = os.path.join(sd, n, "meta.json")
        if os.path.exists(mp):
            metas.setdefault(n[:3], []).append((n, json.load(open(mp))))
    os.makedirs("/tmp/wt", exist_ok=True)
    only = set(os.environ.get("SEED_PIDS", "").split()) or None      # optional: prepare only these properties
    for p in props:
        pid = p["id"]
        if only and pid not in only:
            continue
        wt = f"/tmp/wt/{pid}{suffix}"
        subprocess.run(["git", "-C", "/repo", "worktree", "add", "--detach", wt, "HEAD"], check=True, capture_output=True)
        with open(os.path.join(wt, "PROPERTY.txt"), "w") as f:
            f.write(f"{pid}: {p['title']}\n\nStatement: {p['statement']}\n\nQuantifier ({', '.join(p['quantifier']['over'])}): "
                    f"{p['quantifier']['text']}\n\nWhy the unit tests cannot settle it: {p['why_tests_cant']}\n\n"
                    f"Code: {', '.join(p['anchors']['files'])}\n")
        with open(os.path.join(wt, "KNOWN.txt"), "w") as f:
            f.write("Changes already made against this property (do not repeat their trigger or idea):\n\n")
            for n, m in metas.get(pid, []):
                needs = m.get("needs_to_manifest", "").split(" (missed at first")[0]
                f.write(f"- {m.get('what', '')}\n    needs: {needs}\n")
        with open(os.path.join(wt, "TASK.txt"), "w") as f:
            f.write(TASK.format(wt=wt, style=STYLES[style]))
    print(len(props), "worktrees under /tmp/wt with suffix", suffix)


if __name__ == "__main__":
    main()

"""C20 - key naming modes and config-file key names are mutually consistent."""
import string
import sys

import common
import keylib
from p_c03 import C03


class C20(C03):
    pid = "C20"
    rule = ("the decision-tree nodes and streams of C03 judged for the mode-consistency clauses (same more/key/fail decision in "
            "the three naming modes for every next byte and both 'full' situations under utf8/ascii/latin1; 'bytes' naming "
            "returns exactly the bytes of each keypress); both tables entry by entry (every curses-named sequence has a "
            "curtsies name); every valid configuration key name C-a..C-z, C-[ C-\\ C-] C-^ C-_, M-<every printable non-space "
            "ASCII character>, F1..F12 and the empty (unbound) name, plus a catalogue of invalid names (note only). "
            "every valid name asked twice more of the same KeyMap object after all were served; distinct_nontrivial = nodes x encodings + streams + config names")
    INVALID = ["x", "Fx", "C-", "M-", "F0", "F13", "ctrl-a", "C-ab", "M-ab", "f1", "C", "M", "F", "C-é", " ", "F-1", "A-x"]

    def inputs(self, tier, rng):
        for inp in super().inputs(tier, rng):
            if inp["op"] == "node":
                yield dict(inp, op="node20")
            elif inp["op"] == "stream":
                yield dict(inp, op="stream20")
        yield {"op": "tables"}
        # the tables as a fresh interpreter builds them under other terminal types (the environment is part of "every
        # entry of both tables": a serial console, a BSD console, no TERM at all)
        for term in ("vt100", "vt52", "sun", "cons25", "linux", "dumb", "screen", ""):
            yield {"op": "termtables", "term": term}
        names = [""] + ["C-" + c for c in string.ascii_lowercase] + ["C-[", "C-\\", "C-]", "C-^", "C-_"] + \
                ["M-" + chr(c) for c in range(33, 127)] + ["F%d" % i for i in range(1, 13)]
        for n in names:
            yield {"op": "keymap", "key": n, "valid": 1}
        for n in self.INVALID:
            yield {"op": "keymap", "key": n, "valid": 0}
        # the same KeyMap object asked again after it has served every valid name (and refused the invalid ones): in the
        # same order, then backwards
        for n in names:
            yield {"op": "keymap", "key": n, "valid": 1, "pass": 2}
        for n in reversed(names):
            yield {"op": "keymap", "key": n, "valid": 1, "pass": 3}

    def execute(self, inp):
        if inp["op"] == "node20":
            ev = super().execute(dict(inp, op="node"))
            ev["op"] = "node20"
            return ev
        if inp["op"] == "stream20":
            ev = super().execute(dict(inp, op="stream"))
            ev["op"] = "stream20"
            return ev
        if inp["op"] == "tables":
            return dict(inp)
        if inp["op"] == "termtables":
            import json
            import os
            import subprocess
            import common
            env = dict(os.environ)
            env.pop("TERM", None)
            if inp["term"]:
                env["TERM"] = inp["term"]
            code = ("import sys, json; sys.path.insert(0, %r); from curtsies import events as e; "
                    "print(json.dumps({'curses': sorted(list(k) for k in e.CURSES_NAMES), 'curtsies': sorted(list(k) for k in e.CURTSIES_NAMES)}))" % common.REPO)
            p = subprocess.run([sys.executable, "-c", code], env=env, capture_output=True, text=True, timeout=60)
            ev = dict(inp)
            if p.returncode != 0:
                ev.update(k="exc", curses=[], curtsies=[])
            else:
                ev.update(json.loads(p.stdout.strip().splitlines()[-1]), k="ok")
            return ev
        from curtsies.configfile_keynames import keymap
        ev = dict(inp)
        try:
            res = keymap[inp["key"]]
            ev["k"] = "ok"
            ev["res"] = [self.tables.names.get(n, 0) for n in res]
            ev["names"] = list(res)
        except Exception as e:  # noqa
            ev["k"] = type(e).__name__
            ev["res"] = []
        return ev

    def classify(self, ev):
        if ev["op"] == "node20":
            return ("node", tuple(ev["buf"]), ev["enc"])
        if ev["op"] == "stream20":
            return ("stream", tuple(ev["bytes"]), ev["enc"])
        if ev["op"] == "keymap":
            return ("keymap", ev["key"])
        return None

    def case_class(self, ev, v):
        if ev["op"] == "keymap":
            return "keymap:" + ev["key"][:2]
        return ev["op"] + ":" + ev.get("enc", "")

    def describe(self, ev, v):
        if ev["op"] == "node20":
            return f"node buf={ev['buf']} enc={ev['enc']}"
        return str(ev)[:500]


CHECK = C20()

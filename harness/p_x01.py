"""X01 - behaviour outside the listed properties (./check extras): array_from_text_rc, FSArray.diff, pp_event, normalize_slice, event reprs,
specified as coded in spec/Extras.tla and bound by exact conformance of recorded calls.  Decides no property:
a mismatch is reported as SPEC-DRIFT and the command exits 1 without a VIOLATION line."""
import json
import time

import common
import enc
import fmtlib

ATTS = [fmtlib.PLAIN, fmtlib.RED, fmtlib.BOLD_ON_BLUE, [3, 0, 1, 0, 0, 2, 0, 0]]


def _inputs(rng, tier):
    n = 1 if tier == "quick" else 6
    # text2array: messages over {a, b, LF, CR, wide E} up to length 5, grids 0..3 x 0..3 (+ random longer ones)
    alpha = (97, 98, 10, 13, 65317)
    for msg in fmtlib.texts_upto(alpha, 4 if tier == "quick" else 5):
        for r in range(0, 4):
            for c in range(0, 4):
                if (len(msg) + r + c) % (3 if tier == "quick" else 1) == 0:
                    yield {"op": "text2array", "msg": list(msg), "rows": r, "cols": c}
    for _ in range(400 * n):
        msg = [rng.choice(alpha) for _ in range(rng.randrange(5, 40))]
        yield {"op": "text2array", "msg": msg, "rows": rng.randrange(0, 8), "cols": rng.randrange(0, 9)}
    # fsdiff: two arrays of 0..3 rows of 0..2 runs of length 0..3 over {a, b, space}
    runs = [[list(t), list(a)] for t in fmtlib.texts_upto((97, 98, 32), 3) for a in ATTS]

    def arr():
        return [[rng.choice(runs) for _ in range(rng.randrange(0, 3))] for _ in range(rng.randrange(0, 4))]
    for k in range(1500 * n):
        a = arr()
        b = arr() if k % 3 else [list(r) for r in a]
        if k % 7 == 0 and b and b[0]:
            b[0] = [[list(b[0][0][0]), list(rng.choice(ATTS))]] + b[0][1:]     # same text, other formatting
        yield {"op": "fsdiff", "a": a, "b": b, "ign": k % 2}
    yield {"op": "fsdiff", "a": [], "b": [], "ign": 0}
    yield {"op": "fsdiff", "a": [[[[97] * 120, list(fmtlib.PLAIN)]]], "b": [[[[97] * 7, list(fmtlib.RED)]]], "ign": 0}
    # fseq: the two assertion helpers and simple_format on pairs that are equal, differ in text, in formatting only, in
    # height, or only in the declared width
    for k in range(600 * n):
        a = [r for r in arr() if True] or [[rng.choice(runs)]]
        b = [list(r) for r in a]
        how = k % 6
        if how == 1 and b:
            b[rng.randrange(len(b))] = [rng.choice(runs)]
        elif how == 2 and b and b[0]:
            b[0] = [[list(b[0][0][0]), list(rng.choice(ATTS))]] + b[0][1:]
        elif how == 3:
            b = b + [[rng.choice(runs)]]
        elif how == 4 and b and b[-1]:
            b[-1] = b[-1][:-1] + [[list(b[-1][-1][0][:1]), list(b[-1][-1][1])], [list(b[-1][-1][0][1:]), list(b[-1][-1][1])]]   # other run boundaries
        yield {"op": "fseq", "a": a, "b": b, "ign": k % 2, "wider": int(how == 5)}
    # dumb: FSArray.dumb_display writes every row's terminal string and a newline to sys.stdout, whatever the terminal size
    for k in range(300 * n):
        a = arr()
        yield {"op": "dumb", "a": a, "wider": k % 2}
    # normslice: lengths 0..4, every int index and every slice with bounds in -6..6 / None, with and without a step
    for ln in range(0, 5):
        for i in range(-7, 8):
            yield {"op": "normslice", "n": ln, "ix": ["int", i]}
        for a in list(range(-6, 7)) + [None]:
            for b in list(range(-6, 7)) + [None]:
                for st in ((0, 1) if (ln + (a or 0) + (b or 0)) % 4 == 0 else (0,)):
                    yield {"op": "normslice", "n": ln, "ix": ["slice", a or 0, int(a is None), b or 0, int(b is None), st]}
    # evrepr: the event classes
    for r in (0, 1, 24, 999, -1):
        for c in (0, 80, 7):
            for dy in (None, 0, 3, -2, 120):
                yield {"op": "evrepr", "cls": "winch", "rows": r, "cols": c, "dy": dy}
    yield {"op": "evrepr", "cls": "sigint"}
    for keys in ([], ["a"], ["a", "<UP>", " "], ["<Ctrl-j>", "b", "KEY_F(1)", "\xe9"]):
        yield {"op": "evrepr", "cls": "paste", "keys": keys}
    # ppevent: every name of both tables, and other text
    yield {"op": "ppevent", "names": "tables"}
    for t in ("abc", "", "\x1b", "<F99>", "KEY_NOPE", "<Ctrl-j>", "a", "é", "'", '"', "\\"):
        yield {"op": "ppevent", "name": enc.enc_text(t)}


def _tables():
    from curtsies import events
    return ([[list(k), enc.enc_text(v)] for k, v in events.CURSES_NAMES.items()],
            [[list(k), enc.enc_text(v)] for k, v in events.CURTSIES_NAMES.items()])


def _execute(inp):
    from curtsies.window import BaseWindow
    from curtsies.formatstringarray import FSArray, fsarray
    from curtsies import events
    op = inp["op"]
    ev = dict(inp)
    if op == "text2array":
        msg = enc.dec_text(inp["msg"])
        got = []
        res = fmtlib.enc_list_res(lambda: (got.append(BaseWindow.array_from_text_rc(msg, inp["rows"], inp["cols"])), got[-1].rows)[1])
        ev["res"] = res
        ev["shape"] = list(got[-1].shape) if got else [0, 0]
        return [ev]
    if op == "fsdiff":
        a = fsarray([enc.build_fmtstr(r) for r in inp["a"]])
        b = fsarray([enc.build_fmtstr(r) for r in inp["b"]])
        try:
            s = FSArray.diff(a, b, ignore_formatting=bool(inp["ign"]))
            ev["res"] = {"k": "ok", "t": "", "s": enc.enc_text(s)}
        except Exception as e:  # noqa
            ev["res"] = {"k": "exc", "t": enc.exc_name(e), "s": []}
        return [ev]
    if op == "fseq":
        from curtsies.formatstringarray import assertFSArraysEqual, assertFSArraysEqualIgnoringFormatting, simple_format
        ra = [enc.build_fmtstr(r) for r in inp["a"]]
        rb = [enc.build_fmtstr(r) for r in inp["b"]]
        a = fsarray(ra)
        b = fsarray(rb, width=max([len(r) for r in rb] + [0]) + 2) if inp["wider"] else fsarray(rb)
        ev["wa"], ev["wb"] = a.width, b.width
        ev["a"], ev["b"] = [enc.enc_fmtstr(r) for r in a.rows], [enc.enc_fmtstr(r) for r in b.rows]   # the arrays as built
        try:
            (assertFSArraysEqualIgnoringFormatting if inp["ign"] else assertFSArraysEqual)(a, b)
            ev["res"] = {"k": "ok", "t": ""}
        except Exception as e:  # noqa
            ev["res"] = {"k": "exc", "t": enc.exc_name(e)}
        ev["fmt"] = enc.enc_text(simple_format(a))
        return [ev]
    if op == "dumb":
        import contextlib
        import io
        rows = [enc.build_fmtstr(r) for r in inp["a"]]
        a = fsarray(rows, width=max([len(r) for r in rows] + [0]) + 3) if inp["wider"] else fsarray(rows)
        ev["a"] = [enc.enc_fmtstr(r) for r in a.rows]
        buf = io.StringIO()
        try:
            with contextlib.redirect_stdout(buf):
                r = a.dumb_display()
            ev["res"] = {"k": "ok", "t": "" if r is None else "ReturnsSomething"}
        except Exception as e:  # noqa
            ev["res"] = {"k": "exc", "t": enc.exc_name(e)}
        ev["out"] = enc.enc_text(buf.getvalue())
        return [ev]
    if op == "normslice":
        from curtsies.formatstring import normalize_slice
        ix = inp["ix"]
        index = ix[1] if ix[0] == "int" else slice(None if ix[2] else ix[1], None if ix[4] else ix[3], 2 if ix[5] else None)
        try:
            r = normalize_slice(inp["n"], index)
            ev["res"] = {"k": "ok", "t": "" if (isinstance(r, slice) and r.step is None) else "NotAPlainSlice", "a": r.start, "b": r.stop}
        except Exception as e:  # noqa
            ev["res"] = {"k": "exc", "t": enc.exc_name(e), "a": 0, "b": 0}
        return [ev]
    if op == "evrepr":
        cls = inp["cls"]
        if cls == "winch":
            x = events.WindowChangeEvent(inp["rows"], inp["cols"]) if inp["dy"] is None else events.WindowChangeEvent(inp["rows"], inp["cols"], inp["dy"])
            ev["hasdy"], ev["dy"] = int(inp["dy"] is not None), inp["dy"] or 0
            ev["wc"], ev["cdy"] = enc.enc_text("WindowChangeEvent"), enc.enc_text("cursor_dy")
            ev["xywh"] = [x.x, x.y, x.width, x.height]
        elif cls == "sigint":
            x = events.SigIntEvent()
            ev["lit"] = enc.enc_text("<SigInt Event>")
        else:
            x = events.PasteEvent()
            x.events.extend(inp["keys"])
            ev["keys"] = [enc.enc_text(k) for k in inp["keys"]]
            ev["lit"] = enc.enc_text("<Paste Event with data: ")
        ev["repr"], ev["name"] = enc.enc_text(repr(x)), enc.enc_text(x.name)
        return [ev]
    curses, curtsies = _tables()
    if "names" in inp:
        names = [v for _, v in curses] + [v for _, v in curtsies]
    else:
        names = [inp["name"]]
    out = []
    for nm in names:
        s = enc.dec_text(nm)
        e = {"op": "ppevent", "name": nm, "curses": curses, "curtsies": curtsies, "plain": enc.enc_text(repr(s)[1:-1])}
        try:
            r = events.pp_event(s)
            e["res"] = {"k": "ok", "t": "bytes" if isinstance(r, bytes) else "str",
                        "s": list(r) if isinstance(r, bytes) else enc.enc_text(r)}
        except Exception as ex:  # noqa
            e["res"] = {"k": "exc", "t": enc.exc_name(ex), "s": []}
        out.append(e)
    return out


def run(args):
    t0 = time.time()
    tier = args.tier
    common.import_repo()
    rng = common.rng("X01")
    events = []
    for inp in _inputs(rng, tier):
        events.extend(_execute(inp))
    verdicts, st = common.judge("ExtrasTrace", events, "X01", workers=2)
    bad = [(k, v) for k, v in sorted(verdicts.items()) if v[0] != "ok" or v[-1] != "exact"]
    per_op = {}
    for e in events:
        per_op[e["op"]] = per_op.get(e["op"], 0) + 1
    clauses = {}
    for k, v in bad:
        clauses[v[1] or "inexact"] = clauses.get(v[1] or "inexact", 0) + 1
    if clauses:
        print(f"SPEC-DRIFT extras mismatching clauses: {clauses}")
    for k, v in bad[:10]:
        e = dict(events[k])
        e.pop("curses", None)
        e.pop("curtsies", None)
        print(f"SPEC-DRIFT extras clause={v[1]} event={json.dumps(e, separators=(',', ':'))[:600]}")
    out = {"recorded_calls": per_op, "tlc_states": st["distinct"], "mismatches": len(bad), "tier": tier,
           "wall_s": round(time.time() - t0, 1)}
    if not common.LIGHT and common.REPO == '/repo':
        (common.VERIF / "spec" / "extras-conformance.json").write_text(json.dumps(out, indent=1, sort_keys=True) + "\n")
    common.cleanup("X01")
    print(f"extras {tier}: {len(events)} recorded calls {per_op} validated by TLC against Extras.tla, "
          f"{len(bad)} mismatches, {time.time() - t0:.1f}s")
    return 1 if bad else 0

import subprocess, sys
from concurrent.futures import ThreadPoolExecutor
def one(n):
    p=subprocess.run(["/venv/bin/python","/verif/harness/seedcheck.py",n[:3],"/verif/seeded/"+n,n],capture_output=True,text=True)
    l=[x for x in p.stdout.splitlines() if x.startswith("{")]
    return n,(l[-1] if l else p.stdout[-200:]+p.stderr[-200:])
with ThreadPoolExecutor(5) as ex:
    for n,l in ex.map(one,sys.argv[1:]): print(n,l,flush=True)

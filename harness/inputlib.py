"""Virtual-time, single-threaded, deterministic driver for curtsies.input.Input on a pty.

curtsies.input's `time`, `select` and `os` module references are replaced by harness objects while a history
runs.  The fake select is the yield point at which scripted environment actions (byte arrivals, the two halves
of a thread-safe callback, SIGINT, clock ticks) are performed while the request is "blocked"; it answers from
the real file descriptors (real select with timeout 0), so everything the code reads is real kernel state."""
import os
import pty
import select as real_select
import signal
import termios
import threading
import time as real_time

TICK = 1_000_000      # virtual microseconds per tick
EPS = 1               # the clock advances by this on every reading
BASE = 1_000_000_000.0


class BlockedForever(BaseException):
    pass


class Stream:
    def __init__(self, highfd=False):
        self.master, self.slave = pty.openpty()
        if highfd:
            # a process with hundreds of descriptors open: the terminal's descriptor number is above 256
            import fcntl
            import resource
            soft, hard = resource.getrlimit(resource.RLIMIT_NOFILE)
            if soft < 700 and (hard == resource.RLIM_INFINITY or hard >= 700):
                resource.setrlimit(resource.RLIMIT_NOFILE, (700, hard))
            hi = fcntl.fcntl(self.slave, fcntl.F_DUPFD, 300 + self.slave)
            os.close(self.slave)
            self.slave = hi
        attrs = termios.tcgetattr(self.slave)
        attrs[0] = 0          # iflag: no translation
        attrs[1] = 0          # oflag
        attrs[3] = 0          # lflag: raw-ish, no echo
        attrs[6][termios.VMIN] = 1
        attrs[6][termios.VTIME] = 0
        termios.tcsetattr(self.slave, termios.TCSANOW, attrs)

    def fileno(self):
        return int(str(self.slave))   # a new int object on every call, as a real file object's fileno() gives

    def close(self):
        for fd in (self.master, self.slave):
            try:
                os.close(fd)
            except OSError:
                pass


class Env:
    """virtual clock + scripted environment"""

    def __init__(self):
        self.us = 0          # virtual microseconds since BASE
        self.script = []     # actions to perform while blocked
        self.events = []     # recorded trace
        self.reads_in_req = 0
        self.stream_fd = None
        self.perform = None  # callable(action)
        self.gate = None     # callable(kind): blocks a callback thread at its next shared-state operation
        self.pending_stall = 0   # the main thread is descheduled for this long right after select() returns
        self.in_select = False
        self.post_stall = 0      # a stall that is armed by the next return of select()

    # --- time module double
    def time(self):
        if self.pending_stall and not self.in_select:
            self.us += self.pending_stall
            self.pending_stall = 0
            self.events.append({"k": "stalled"})
        self.us += EPS
        return BASE + self.us / 1e6

    # --- select module double
    def select(self, rlist, wlist, xlist, timeout=None):
        self.in_select = True
        try:
            return self._select(rlist, timeout)
        finally:
            self.in_select = False
            self.pending_stall += self.post_stall
            self.post_stall = 0

    def _select(self, rlist, timeout):
        entry = self.us
        while True:
            ready = real_select.select(rlist, [], [], 0)[0]
            if ready:
                return ready, [], []
            if timeout is not None and self.us >= entry + int(round(timeout * 1e6)):
                return [], [], []
            if self.script:
                act = self.script.pop(0)
                self.perform(act)
                continue
            if timeout is None:
                raise BlockedForever()
            self.us = max(self.us, entry + int(round(timeout * 1e6)))
            return [], [], []


class OsProxy:
    """`os` as seen from curtsies.input: records the size of every read from the input stream"""

    def __init__(self, env):
        self._env = env

    def __getattr__(self, name):
        return getattr(os, name)

    def write(self, fd, data):
        gate = self._env.gate
        if gate is not None and threading.current_thread() is not threading.main_thread():
            gate("tswrite")
        return os.write(fd, data)

    def read(self, fd, n):
        data = os.read(fd, n)
        if fd == self._env.stream_fd:
            self._env.reads_in_req += 1
            self._env.events.append({"k": "read", "n": len(data), "first": int(self._env.reads_in_req == 1)})
        return data


def closure_int(cb):
    """the write fd captured by a threadsafe_event_trigger callback"""
    for cell in cb.__closure__ or ():
        v = cell.cell_contents
        if isinstance(v, int) and not isinstance(v, bool):
            return v
    raise RuntimeError("no fd in closure")


def key_bytes(nb, ident):
    """one keypress encoding of nb bytes, wire alphabet (never upper-case ASCII letters)"""
    if nb == 1:
        return bytes([97 + ident % 26])
    if nb == 2:
        return chr(0xE0 + ident % 16).encode("utf8")       # 2-byte character
    if nb == 3:
        # (the last three: UTF-8 forms whose middle byte is 0xBF / 0x80, the edges of the continuation range)
        return [b"\x1b[A", b"\x1b[B", b"\x1bOP", "日".encode("utf8"), "\u8fd9".encode("utf8"), "\ufffd".encode("utf8"),
                "\u4000".encode("utf8")][ident % 7]
    if nb == 4:
        return [b"\x1b[3~", "😀".encode("utf8"), "\U0003ffff".encode("utf8")][ident % 3]       # F0 BF BF BF too
    return b"\x1b[1;5" + bytes([65 + 32 + ident % 4]) if nb == 6 else bytes([97 + ident % 26]) * nb


def split_keys(data):
    """keypress segmentation of bytes built from key_bytes() units (letters, UTF-8 characters, the escape
    sequences ESC[A ESC[B ESCOP ESC[3~): the arrival's own structure, recorded as an environment fact"""
    out = []
    i = 0
    b = bytes(data)
    while i < len(b):
        c = b[i]
        if c == 0x1B:
            if b[i:i + 4] == b"\x1b[3~":
                n = 4
            elif b[i:i + 5] == b"\x1b[15~" or b[i:i + 6] == b"\x1b[1;5C" or b[i:i + 7] in (b"\x1b[1;10A", b"\x1b[1;10B", b"\x1b[1;10C", b"\x1b[1;10D"):
                n = 5 if b[i + 2:i + 4] == b"15" else 6 if b[i + 4:i + 5] == b"5" else 7       # F5, Ctrl-RIGHT, Esc+Shift-arrows (the longest table keys)
            elif b[i:i + 3] in (b"\x1b[A", b"\x1b[B", b"\x1bOP"):
                n = 3
            else:
                n = 1
        elif c >= 0xF0:
            n = 4
        elif c >= 0xE0:
            n = 3
        elif c >= 0xC0:
            n = 2
        else:
            n = 1
        out.append(list(b[i:i + n]))
        i += n
    return out


def run_history(hist, paste_threshold=8, final_drain=True, pre=None, nostart=False, highfd=False, nomain=False):
    """hist: list of actions {"k": arrive|unget|trig|sched|tsappend|tswrite|tscall|sigint|tick|req, ...}.
    Returns the recorded trace {"paste": threshold or -1, "ev": [...]}"""
    import curtsies.input as cinput
    from curtsies import events as cevents

    env = Env()
    stream = Stream(highfd)
    env.stream_fd = stream.slave
    ids = {"n": 0}

    class Ev(cevents.Event):
        # a payload-free application event ("tick", "redraw"): every instance equals every other one, the way a
        # dataclass or namedtuple event does - which one is which is the harness's business (id), not the library's
        def __init__(self, id):
            self.id = id

        def __eq__(self, other):
            return isinstance(other, Ev)

        def __hash__(self):
            return 7

    class SEv(cevents.ScheduledEvent):
        def __init__(self, when):
            super().__init__(when)
            self.id = ids["cur"]

    saved = (cinput.time, cinput.select, cinput.os)
    cinput.time, cinput.select, cinput.os = env, env, OsProxy(env)
    saved_main = cinput.is_main_thread
    if nomain:
        # the Input is entered and used from a thread that is not the main one: no SIGINT handler, no signal wake-up
        # descriptor (the library decides this with is_main_thread(); the history holds no SIGINT)
        cinput.is_main_thread = lambda: False
    old_handler = signal.getsignal(signal.SIGINT)
    rec = env.events
    try:
        if pre:
            # typed ahead: these bytes are in the terminal's input queue before the Input context is entered
            os.write(stream.master, bytes(pre))
            rec.append({"k": "arrive", "bytes": list(pre), "keys": split_keys(bytes(pre))})
        inp = cinput.Input(in_stream=stream, keynames="bytes", paste_threshold=paste_threshold, sigint_event=True,
                           disable_terminal_start_stop=bool(nostart))
        inp.__enter__()
        paused, ts_wfd = [], None
        try:
            trig = inp.event_trigger(Ev)
            sched = inp.scheduled_event_trigger(SEv)
            ts = inp.threadsafe_event_trigger(Ev)
            try:
                ts_wfd = closure_int(ts)
            except RuntimeError:
                # the callback holds no descriptor at all: it cannot wake a blocked request; the history goes on and is
                # judged on what the requests return
                ts_wfd = None

            # Thread-safe callbacks run in real helper threads executing the real callback; the thread is paused
            # (strict handshake, so still deterministic) right before each operation on shared state - the
            # queue append and the wake-up pipe write, in whatever order the code performs them.
            class HookList(list):
                def append(self, x):
                    if env.gate is not None and threading.current_thread() is not threading.main_thread():
                        env.gate("tsappend")
                    list.append(self, x)
            inp.queued_interrupting_events = HookList(inp.queued_interrupting_events)
            paused = []          # [thread, kind, go_event, done_flag, id]
            local = threading.local()

            def gate(kind):
                st = local.st
                st["kind"] = kind
                st["reached"].set()
                st["go"].wait()
                st["go"].clear()
            env.gate = gate

            def start_callback(ident):
                st = {"kind": None, "reached": threading.Event(), "go": threading.Event(), "done": False, "id": ident}

                def body():
                    local.st = st
                    try:
                        ts(id=ident)
                    finally:
                        st["done"] = True
                        st["reached"].set()
                t = threading.Thread(target=body, daemon=True)
                st["thread"] = t
                t.start()
                st["reached"].wait(5)
                st["reached"].clear()
                if not st["done"]:
                    paused.append(st)
                return st

            def step_callback(st):
                """let the paused callback perform its pending operation and run to the next one (or finish)"""
                kind = st["kind"]
                rec.append({"k": "tsappend", "id": st["id"]} if kind == "tsappend" else {"k": "tswrite", "id": st["id"]})
                st["go"].set()
                st["reached"].wait(5)
                st["reached"].clear()
                if st["done"] and st in paused:
                    paused.remove(st)
                if st["done"] and not st.get("fin"):
                    # the callback has returned to its caller: from here on its event counts as handed over, whether or
                    # not the callback wrote a wake-up byte
                    st["fin"] = True
                    rec.append({"k": "tsfin", "id": st["id"]})

            def perform(a):
                k = a["k"]
                if k == "arrive":
                    data = bytes(a["bytes"])
                    os.write(stream.master, data)
                    rec.append({"k": "arrive", "bytes": list(data), "keys": a.get("keys") or split_keys(data)})
                elif k == "unget":
                    data = bytes(a["bytes"])
                    inp.unget_bytes(data)
                    rec.append({"k": "unget", "bytes": list(data)})
                elif k == "trig":
                    trig(id=a["id"])
                    rec.append({"k": "trig", "id": a["id"]})
                elif k == "sched":
                    ids["cur"] = a["id"]
                    sched(BASE + a["when"] * TICK / 1e6)
                    rec.append({"k": "sched", "id": a["id"], "when": a["when"] * TICK})
                elif k == "tsappend":
                    # a thread starts the real callback and performs its first shared-state operation
                    st = start_callback(a["id"])
                    if not st["done"]:
                        step_callback(st)
                elif k == "tswrite":
                    # the oldest half-done callback performs its next operation; with none pending this is a
                    # stray wake-up byte (e.g. the late half of a callback whose event was already consumed)
                    if paused:
                        step_callback(paused[0])
                    elif ts_wfd is not None:
                        os.write(ts_wfd, b"interrupting event!")
                        rec.append({"k": "tswrite", "id": 0})
                elif k == "tscall":
                    st = start_callback(a["id"])
                    while not st["done"]:
                        step_callback(st)
                elif k == "sigint":
                    os.kill(os.getpid(), signal.SIGINT)
                    for _ in range(5):
                        pass
                    rec.append({"k": "sigint"})
                elif k == "reenter":
                    # the context is left and the same Input object entered again (an application that suspends and
                    # resumes); triggers made in the first session are still held by their owners
                    inp.__exit__(None, None, None)
                    inp.__enter__()
                    rec.append({"k": "reenter"})
                elif k == "tick":
                    env.us += TICK
                    rec.append({"k": "tick"})
                elif k == "stall":
                    # takes effect at the main thread's next clock reading outside select()
                    if a.get("post"):
                        env.post_stall += a.get("us", TICK)
                    else:
                        env.pending_stall += a.get("us", TICK)
            env.perform = perform

            def request(T):
                env.reads_in_req = 0
                t0 = env.us
                rec.append({"k": "req", "T": -1 if T is None else int(T * TICK), "t0": t0})
                ret = {"k": "ret", "kind": "none", "bytes": [], "keys": [], "id": 0, "exc": ""}
                try:
                    r = inp.send(T)
                    if r is None:
                        ret["kind"] = "none"
                    elif isinstance(r, bytes):
                        ret["kind"], ret["bytes"] = "key", list(r)
                    elif isinstance(r, cevents.PasteEvent):
                        ret["kind"] = "paste"
                        ret["keys"] = [list(x) if isinstance(x, bytes) else [] for x in r.events]
                    elif isinstance(r, cevents.SigIntEvent):
                        ret["kind"] = "sigint"
                    elif isinstance(r, SEv):
                        ret["kind"], ret["id"] = "sched", r.id
                    elif isinstance(r, Ev):
                        ret["kind"], ret["id"] = "event", r.id
                    else:
                        ret["kind"], ret["exc"] = "exc", "UnexpectedReturn:" + type(r).__name__
                except BlockedForever:
                    ret["kind"] = "blocked"
                except Exception as e:  # noqa
                    ret["kind"], ret["exc"] = "exc", type(e).__name__
                ret["t1"] = env.us
                rec.append(ret)
                return ret

            BLOCKABLE = {"arrive", "tsappend", "tswrite", "tscall", "sigint", "tick", "stall"}
            i = 0
            n = len(hist)
            while i < n:
                a = hist[i]
                i += 1
                if a["k"] != "req":
                    perform(a)
                    continue
                j = i
                while j < n and hist[j]["k"] in BLOCKABLE:
                    j += 1
                env.script = list(hist[i:j])
                request(a["T"])
                env.pending_stall = env.post_stall = 0
                left = env.script
                env.script = []
                for b in left:          # not consumed while blocked: they happen before the next request
                    perform(b)
                i = j
            while paused:
                step_callback(paused[0])
            if final_drain:
                # let every scheduled event become due, then drain
                maxw = max([a["when"] for a in hist if a["k"] == "sched"] + [0])
                while env.us <= (maxw + 1) * TICK:
                    perform({"k": "tick"})
                quiet = 0
                for _ in range(20000):
                    r = request(0)
                    if r["kind"] == "exc":
                        break
                    quiet = quiet + 1 if r["kind"] == "none" else 0
                    if quiet >= 2:
                        break
                rec.append({"k": "end"})
        finally:
            env.gate = None
            for st in list(paused):
                st["go"].set()
            try:
                inp.__exit__(None, None, None)
            except Exception:  # noqa
                pass
            for fd in list(inp.readers):
                try:
                    os.close(fd)
                except OSError:
                    pass
            try:
                if ts_wfd is not None:
                    os.close(ts_wfd)
            except Exception:  # noqa
                pass
    finally:
        cinput.time, cinput.select, cinput.os = saved
        cinput.is_main_thread = saved_main
        signal.signal(signal.SIGINT, old_handler)
        stream.close()
    return {"paste": -1 if paste_threshold is None else paste_threshold, "ev": rec, "raw": 0}

"""Regenerates /verif/MANIFEST.json from the table below (keeps it valid by construction)."""
import json
import os
import sys

HERE = os.path.dirname(os.path.abspath(__file__))
VERIF = os.path.dirname(HERE)

BASELINE_OFF = ("cd /repo && env -u CURTSIES_VERIF_TRACE /venv/bin/python -m pytest -ra -q -p no:cacheprovider "
                "--timeout=900 --continue-on-collection-errors")

TRUST = ("Trusted base: TLC 1.8, CPython, the harness's raw serialisation of values (harness/enc.py) and its "
         "ECMA-48 lexer, the bounded domains stated in the evidence 'rule'. ")

# pid -> (technique, level text, level note, design_ref)
CLAIMS = {
    "C01": ("TLA+ stream-terminal spec (Sgr.tla/ColorStr.tla): TLC model-checks the design over all 59,049 attribute "
            "records; TLC trace validation of lexed str(f) recorded from the real code",
            "TLC checks that the implementation-shaped model of color_str satisfies OnlySgr/ShownExact/EndsDefault for "
            "every attribute record and short run sequences; every str(f) produced by the real code for the same "
            "(exhaustive in the thorough tier) attribute space and multi-run values is validated by TLC against the "
            "stream terminal. Complete for single runs; concatenation follows from RunNeutral.",
            TRUST + "SGR semantics per ECMA-48 as written in Sgr.tla.", "5/C01"),
    "C06": ("TLA+ value-algebra spec (PyStr/FmtAbs/FmtImpl): TLC model-checks Impl=>Abs over bounded layouts; TLC trace "
            "validation of bounded-exhaustive executions of the real operators",
            "Bounded-exhaustive: every layout of <=2 (quick) / <=3 (thorough) runs x every slice bound pair, index, repeat "
            "count and operand pair is executed on the real operators and each recorded result is validated by TLC against "
            "Python's str semantics written in TLA+ (PyStr.tla); the implementation-shaped run walk is model-checked "
            "against the same clauses.",
            TRUST, "5/C06"),
    "C09": ("TLA+ splice spec (FmtAbs.AbsSplice / FmtImpl.ImplSplice per-run case split): TLC design check + TLC trace "
            "validation of bounded-exhaustive real splice/append calls",
            "Every alignment of start/end with every run boundary for all layouts of <=2/<=3 runs and a pool of new values "
            "is executed on the real splice/append; TLC validates result cells, len/.s consistency and operand immutability; "
            "the per-run case split is model-checked against Take/new/Drop.",
            TRUST, "5/C09"),
    "C05": ("TLA+ parser model (Parse.tla) vs stream terminal (Sgr.tla): TLC model-checks all grammar strings of <=3/4 items; "
            "TLC trace validation of real from_str/fmtstr results on round trips and grammar strings",
            "Round trip over the attribute space of C01 with newline/control texts and every grammar string of <=3 (quick) / "
            "<=4 (thorough) items is parsed by the real code; TLC validates the recorded run lists per character against what "
            "the stream terminal displays for the input tokens.",
            TRUST, "5/C05"),
    "C14": ("TLA+ meaning of formatting specifications (Spelling.tla) and parse_args model (ParseArgs.tla): TLC design check "
            "over all specifications of <=3 items; TLC trace validation of real calls in every spelling",
            "Every attribute map in every spelling, orders and nestings of <=3, overrides, the fmtfuncs, removal, "
            "copy_with_new_str, shared_atts and a catalogue of invalid specifications are executed on the real API and validated "
            "by TLC against the specification's own name/number tables.",
            TRUST + "Weakest readings: case variants of valid names may be accepted or rejected with ValueError; 'uniformly "
            "formatted' = all runs share display attributes; contradictory style (positional + keyword False) is not judged.", "5/C14"),
    "C17": ("TLA+ ECMA-48 scanner (Scan.tla: MustKeep / OrdinaryCsi / Strip): TLC trace validation of real fmtstr/from_str "
            "results on all strings <=4/5 over a 13-symbol alphabet, random longer strings and a corpus",
            "Bounded-exhaustive over an alphabet chosen to produce well-formed, unsupported, truncated and nested escape "
            "sequences in every position; each recorded result (or exception) is judged by TLC.",
            TRUST, "5/C17"),
    "C19": ("TLA+ clauses over recorded terminal strings (FmtJudge.JudgeEq/JudgeRepr): TLC trace validation of all ordered pairs "
            "of a value pool and of repr round trips",
            "All ordered pairs of a pool rich in near-collisions (same text, different formatting / run boundaries / explicit "
            "False / empty runs) and plain strs: ==, !=, reversed ==, hash, set/dict membership recorded with both terminal "
            "strings and validated by TLC; repr is shape-checked (ast) and evaluated in a namespace of only the fmtfuncs names; the value and its evaluated repr must have the same runs and display the same (lexed terminal strings).",
            TRUST + "Python's eval/ast for the repr expression.", "5/C19"),
    "C10": ("TLA+ column model (Width.tla: Cols / AbsWsliceCols): TLC trace validation of bounded-exhaustive real "
            "width/width_at_offset/width_aware_slice calls",
            "Every layout of <=2 (quick) / <=3 (thorough) runs over narrow/double-width/combining characters, every offset and "
            "every column range 0<=a<=b<=width+2 is executed on the real code; TLC compares the column expansion of each result "
            "with the specification's.",
            TRUST + "Width classes of the 7-character alphabet are a spec constant checked against cwcwidth at setup.", "5/C10"),
    "C11": ("TLA+ wrapping predicate (Width.tla: WrapVerdict / WrapMatch): TLC trace validation of bounded-exhaustive real "
            "width_aware_splitlines calls",
            "Every layout (empty runs, run-less value, double-width at every alignment, zero-width after a full line) x columns "
            "2..5; TLC checks line widths, non-emptiness and that the lines minus admissible paddings are exactly the original "
            "cells in order. Single runs of up to 131073 characters are judged on recorded line lengths (JudgeWsplitLong), not cell by cell.",
            TRUST + "Width classes as for C10.", "5/C11"),
    "C15": ("TLA+ reference str semantics (PyStr.tla split/splitlines; Python's own answer logged as environment fact for "
            "delegated methods and regexes): TLC trace validation of real method calls",
            "split/splitlines pieces must be exactly the cell sub-ranges the reference split gives (every line boundary of the "
            "library reference, separators able to match zero characters); ljust/rjust text must agree "
            "with str and invent no formatting; delegated methods (every public str method that __getattr__ hands through) must agree with str and carry exactly the shared formatting.",
            TRUST + "Python str/re semantics for delegated methods and regex split are taken from Python itself.", "5/C15"),
    "C16": ("TLA+ greedy reference wrap (Wrap.tla): TLC trace validation of bounded-exhaustive real linesplit calls",
            "Every layout over {x,y,space,tab,newline} with formatting changes inside words and whitespace x columns 1..6; TLC "
            "compares lines with the greedy first-fit reference, every word character with its cell, every joining space with the "
            "whitespace it replaces.",
            TRUST, "5/C16"),
    "C02": ("TLA+ reference terminal (Term.tla) + FullscreenWindow model (FullscreenWin.tla): TLC model-checks all "
            "Render/Resize sequences on small terminals (MC_Fullscreen), generates behaviours, and validates recorded "
            "token streams of the real window (FullscreenTrace.tla)",
            "The real window is driven through TLC-generated behaviours, all (render, resize?, render) triples over a small "
            "line set and seeded longer histories on a pty-sized capture stream; TLC runs the recorded escape sequences "
            "through the reference terminal and checks screen = array (clipped), cursor position and no scrolling after "
            "every render; the design model proves the same for the implementation-shaped model with the CacheTruth invariant.",
            TRUST + "Term.tla models xterm (pending wrap, BCE, alternate screen); a resize is modelled as junk in every cell.", "5/C02"),
    "C07": ("TLA+ reference terminal with scrollback (Term.tla) + CursorAwareWindow model (CursorWin.tla): TLC design check "
            "(MC_CursorWin), behaviour generation, trace validation of the real window's token streams (CursorTrace.tla)",
            "Histories with 0..H+2 pre-existing lines, renders of height 0..H+3, both options; TLC checks that the line "
            "sequence scrollback+screen keeps everything above the window, continues with the array rows then blanks, that "
            "the scroll count and the return value are exactly what does not fit, and the cursor cell; every cursor report the "
            "harness sends is cross-checked against the reference terminal.",
            TRUST + "Rows are at most as wide as the terminal.", "5/C07"),
    "C18": ("TLA+ spec of the cursor report parser and of the vertical-diff bookkeeping (CursorQuery.tla): TLC design check "
            "(MC_VDiff: conservation over all movements with a nested call), TLC trace validation of real calls on scripted streams",
            "get_cursor_position is run on scripted input (every short string of preceding bytes, 7/8-bit reports, trailing "
            "input, OSError faults at chosen reads, with/without callback); get_cursor_vertical_diff for every small "
            "(top_usable_row, last row, reported rows) with a nested call injected during a query; TLC judges each recorded call.",
            TRUST + "Preceding input that itself contains a complete report is excluded (inherent ambiguity).", "5/C18"),
    "C13": ("TLA+ pool-program spec (Pool.tla/PoolOps.tla; AppendOnly action property): TLC generates straight-line programs "
            "(BFS depth 2 + simulation depth 12) that are replayed on real FmtStr objects; PoolTrace.tla validates every step",
            "After every step of every TLC-generated program the run lists of all live values are recorded without touching "
            "memos and must be unchanged; Observe steps compare memoised str/len/s/width/repr with views rebuilt from fresh "
            "runs; in-place edit attempts must raise; modelled operations must give the model's cells on shared, cache-warm operands.",
            TRUST, "5/C13"),
    "C03": ("TLA+ key-decoder spec (KeyDecoder.tla: RFC 3629 UTF-8, prefix set recomputed from the extracted tables, Allowed "
            "outcome sets): TLC model-checks the decoder state machine on the extracted tables (MC_KeyDecoder) and validates "
            "recorded decision-tree nodes, streams and scalar values of the real get_key / Input.find_key (KeyTrace.tla)",
            "Every node of the ESC subtree and of the UTF-8 subtrees (sampled below depth 2 in quick) x every next byte x both "
            "'full' situations x 3 modes x 3 encodings is asked of the real get_key and compared with the set of outcomes the "
            "statement allows; two-key streams are pushed through Input's own find_key; every scalar value (sampled in quick) "
            "is fed byte by byte.",
            TRUST + "Key tables are extracted from the working tree (they define 'recognised'); a frozen copy is not used.", "5/C03"),
    "C20": ("TLA+ key-decoder spec (KeyDecoder.tla/KeyTrace.tla: ModesCutAtSamePlaces, BytesNamingReturnsTheBytes, curses subset, "
            "ConfigNameNeverProduced): TLC design check on extracted tables + trace validation of real get_key vectors, streams "
            "and keymap lookups",
            "The C03 tree and streams judged for mode consistency (incl. 'named under curses naming => not bare text under curtsies naming' at every node), both tables entry by entry, every valid configuration key "
            "name checked against the names the decoder can produce.",
            TRUST + "Invalid configuration names are recorded but not judged (the statement promises nothing for them).", "5/C20"),
    "C04": ("TLA+ FSArray spec (FSArray.tla: Show/ExpectShow/MustFail, ImplAssign + ImplSetslice): TLC model-checks all assignment "
            "sequences on small arrays (MC_FSArray), generates histories, and validates row snapshots of the real FSArray (FSArrayTrace.tla)",
            "Histories of region/cell/row-slice assignments and reads on real arrays (TLC-generated behaviours, every single "
            "assignment on pre-filled 1x2/2x2/2x3 arrays, seeded random histories); after each step TLC compares what every "
            "cell shows with the specification, including 'error => nothing changed' and exact downward growth.",
            TRUST + "Weakest reading: a block row longer than the region that only spills into blank cells may either raise or be "
            "shown from c0; any exception class counts as an error; column bounds are within the array width.", "5/C04"),
    "C08": ("TLA+ state machine of Input (Input.tla: environment actions incl. the two halves of a thread-safe callback, "
            "SigInt, Tick; main-thread actions per critical section of _send): TLC model-checks all interleavings for small "
            "constants, generates schedules, and validates recorded histories of the real Input under virtual time (InputTrace.tla)",
            "The real Input runs on a pty with curtsies.input's time/select/os replaced by deterministic doubles; TLC-generated "
            "and seeded schedules (arrivals, bursts across the 1024-byte read, unget, three trigger kinds, split thread-safe "
            "callbacks, real SIGINTs, ticks, timeouts 0/2/None, paste thresholds 8/1/None) end with a drain; TLC checks "
            "once-in-order delivery per source, handed-over bytes after what the Input had read before (HandedOverBytesInArrivalOrder), scheduled-event timing and order, no blocking/None while deliverable, None not "
            "before the timeout, paste events. The design model found the early-None defect (two stale wake-ups) that was then "
            "reproduced on the real code and fixed.",
            TRUST + "Interleavings are exhaustive in the model and replayed at the code's own yield points (select/time/read); "
            "preemption inside CPython bytecode is not enumerated.", "5/C08"),
    "C12": ("TLA+ resource model of the six context managers (Ctx.tla: stack of frames with entry snapshots, Raise unwinding): "
            "TLC model-checks all nestings/options/crash points, generates scenarios replayed on real ptys; CtxTrace.tla + "
            "Term.tla validate the recorded snapshots and terminal tokens",
            "Every nesting of <=3 contexts, option combination and crash point of the bounded model plus scenario families "
            "(repeated and nested Inputs, SIGINT from another thread during a blocked request, non-main thread, initial "
            "O_NONBLOCK, renders that raise part-way with the exception leaving the window) run on real ptys; after each step termios attributes, O_NONBLOCK, SIGINT handler, wake-up fd and "
            "open-fd count are recorded and TLC checks Restored at every exit, plus cursor/alternate-screen state via the "
            "reference terminal.",
            TRUST + "At most one window context at a time; an interrupt landing inside __enter__/__exit__ is out of scope.", "5/C12"),
}

NOT_BUILT = "check not built yet at this commit (planned with the same TLA+ technique, see DESIGN.md section 5)"


def main():
    checks = []
    for pid in sorted(CLAIMS):
        tech, text, note, ref = CLAIMS[pid]
        checks.append({
            "property_id": pid,
            "quick_cmd": f"./check {pid} --tier quick",
            "thorough_cmd": f"./check {pid} --tier thorough",
            "evidence_file": f"/verif/evidence/{pid}.json",
            "replay_cmd_template": f"./check {pid} --replay {{path}}",
            "engine": "tlc-trace-validation",
            "level_claimed": {"category": "model_checking", "text": text, "design_ref": f"DESIGN.md section {ref}"},
            "level_note": note,
            "technique": tech,
        })
    props = [json.loads(l)["id"] for l in open(os.path.join(VERIF, "properties.jsonl")) if l.strip()]
    na = [{"property_id": p, "reason": NOT_BUILT} for p in props if p not in CLAIMS]
    man = {
        "version": 1,
        "setup_cmd": "./check setup",
        "hooks": {
            "guard": "CURTSIES_VERIF_TRACE",
            "enable": "no source hooks: the harness wraps/monkeypatches curtsies from outside (harness-side wrappers only); "
                      "checks import /repo's working tree directly (VERIF_REPO overrides the path)",
            "baseline_off_cmd": BASELINE_OFF,
            "source_commits": [],
            "add_only": True,
        },
        "engines": [
            {"name": "tlc-trace-validation", "path": "/verif/spec",
             "serves_properties": sorted(CLAIMS),
             "kind_free_text": "explicit TLA+ specification (spec/*.tla): TLC model-checks the design modules for small constants, "
                               "generates behaviours that are replayed into the real code, and validates every execution recorded "
                               "from the real code against the property clauses (batch trace validation)"},
        ],
        "checks": checks,
        "not_applicable": na,
        "notes": "All checks run offline from /verif against /repo's working tree. Exit 0 = held, 1 = VIOLATION line, "
                 "2 = the machinery could not judge (never a verdict). known-findings.txt lists recorded genuine defects.",
    }
    with open(os.path.join(VERIF, "MANIFEST.json"), "w") as f:
        json.dump(man, f, indent=1)
        f.write("\n")
    try:
        import jsonschema
        jsonschema.validate(man, json.load(open("/root/.vp/MANIFEST.schema.json")))
        print("MANIFEST.json valid;", len(checks), "checks,", len(na), "not_applicable")
    except ImportError:
        print("MANIFEST.json written (jsonschema not available to validate)")


if __name__ == "__main__":
    main()

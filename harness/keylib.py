"""Key-decoder harness: table extraction, outcome codes, decision-tree walk, stream runs."""
import json
import os

import common

ENC_PY = {"utf8": "utf8", "ascii": "ascii", "latin1": "latin1"}
# other spellings of the same three codecs (what locales report: 646 on Solaris, ISO-8859-1, UTF-8 ...)
ENC_ALIASES = {"utf8": ["utf8", "UTF-8", "utf_8", "U8"], "ascii": ["ascii", "646", "iso646-us", "US-ASCII"],
               "latin1": ["latin1", "iso-8859-1", "L1", "cp819"]}
ALIAS = 0      # which spelling is handed to the library for the case being executed


def pyenc(enc):
    names = ENC_ALIASES[enc]
    return names[ALIAS % len(names)]


class Tables:
    def __init__(self):
        from curtsies import events
        self.events = events
        self.names = {}
        for tab in (events.CURTSIES_NAMES, events.CURSES_NAMES):
            for k in sorted(tab):
                self.id(tab[k])
        self.x = [[[b], self.id("x%02X" % b)] for b in range(128, 256)]
        self.modes = {"curtsies": events.Keynames.CURTSIES, "curses": events.Keynames.CURSES, "bytes": events.Keynames.BYTES}

    def id(self, name):
        if name not in self.names:
            self.names[name] = len(self.names) + 1
        return self.names[name]

    def json(self):
        ev = self.events
        return {"curtsies": [[list(k), self.names[v]] for k, v in sorted(ev.CURTSIES_NAMES.items())],
                "curses": [[list(k), self.names[v]] for k, v in sorted(ev.CURSES_NAMES.items())],
                "xnames": self.x}

    def write(self, path):
        with open(path, "w") as f:
            json.dump(self.json(), f)

    def code(self, result, seq, enc, mode):
        if result is None:
            return 0
        if mode == "bytes":
            return 4 if isinstance(result, bytes) and result == seq else 5
        if not isinstance(result, str):
            return 3
        try:
            dec = seq.decode(ENC_PY[enc])
        except UnicodeDecodeError:
            dec = None
        if result in self.names and result != dec:
            return 10 + self.names[result]
        if dec is not None and result == dec:
            return 2
        return 3

    probe = False
    PROBES = {1: [b"\x1b", b"\xc3"], 2: [b"\x1b[", b"\x1bO", b"\xe2\x82"], 3: [b"\x1b[1", b"\x1b[2", b"\xf0\x9f\x98"],
              4: [b"\x1b[1;", b"\x1b[15"], 5: [b"\x1b[1;1", b"\x1b[1;5"]}

    def get_key(self, seq, enc, mode, full):
        if self.probe and len(seq) >= 2:
            # the call before this one probed another, unfinished keypress of one chunk less and was abandoned
            for pr in self.PROBES.get(len(seq) - 1, []):
                if pr != bytes(seq[:len(seq) - 1]):
                    try:
                        self.events.get_key([pr[i:i + 1] for i in range(len(pr))], pyenc(enc), keynames=self.modes[mode], full=False)
                    except Exception:  # noqa
                        pass
                    break
        try:
            r = self.events.get_key([seq[i:i + 1] for i in range(len(seq))], pyenc(enc), keynames=self.modes[mode], full=full)
        except Exception:  # noqa
            return 1
        return self.code(r, seq, enc, mode)

    def node_event(self, buf, enc):
        ev = {"op": "node", "buf": list(buf), "enc": enc}
        for mode, key in (("curtsies", "vc"), ("curses", "vs"), ("bytes", "vb")):
            ev[key] = [[self.get_key(bytes(buf) + bytes([b]), enc, mode, full) for b in range(256)] for full in (False, True)]
        return ev


class PipeIn:
    def __init__(self):
        self.r, self.w = os.pipe()

    def fileno(self):
        return self.r

    def close(self):
        os.close(self.r)
        os.close(self.w)


def run_stream(tables, data, enc, pipe):
    """Push `data` through Input.find_key semantics (unget_bytes + requests with timeout 0) in the three naming modes."""
    import curtsies.input as cinput
    out = {}
    orig = cinput.getpreferredencoding
    cinput.getpreferredencoding = lambda: pyenc(enc)
    try:
        for mode, sfx in (("curtsies", "c"), ("curses", "s"), ("bytes", "b")):
            inp = cinput.Input(in_stream=pipe, keynames=tables.modes[mode])
            inp.unget_bytes(data)
            cuts, codes, keys = [], [], []
            exc = ""
            pos = 0
            while inp.unprocessed_bytes:
                try:
                    k = inp.send(0)
                except Exception as e:  # noqa
                    exc = type(e).__name__
                    break
                if k is None:
                    break
                newpos = len(data) - len(inp.unprocessed_bytes)
                seq = data[pos:newpos]
                cuts.append(newpos)
                codes.append(tables.code(k, seq, enc, mode))
                if mode == "bytes":
                    keys.append(list(k) if isinstance(k, bytes) else [])
                pos = newpos
            out["cuts" + sfx] = cuts
            out["exc" + sfx] = exc
            if mode == "curtsies":
                out["codesc"] = codes
            if mode == "bytes":
                out["keysb"] = keys
    finally:
        cinput.getpreferredencoding = orig
    return out


class _HighFd:
    def __init__(self, fd):
        import fcntl
        import resource
        soft, hard = resource.getrlimit(resource.RLIMIT_NOFILE)
        if soft < 700 and (hard == resource.RLIM_INFINITY or hard >= 700):
            resource.setrlimit(resource.RLIMIT_NOFILE, (700, hard))
        self.fd = fcntl.fcntl(fd, fcntl.F_DUPFD, 300 + fd)

    def fileno(self):
        return int(str(self.fd))      # a new int object on every call, as a real file object's fileno() gives


class _Pty:
    def __init__(self):
        import pty
        self.master, self.slave = pty.openpty()

    def fileno(self):
        return self.slave

    def close(self):
        for fd in (self.master, self.slave):
            try:
                os.close(fd)
            except OSError:
                pass


def run_unget(tables, items, pieces, enc, pipe, ctx=False, sigint=False, mode="bytes"):
    """The keypresses `items` reach an Input (bytes naming) through unget_bytes in pieces of `pieces` items each (the
    way a window hands over what it read past a cursor report), one request after every piece - so a piece arrives
    while earlier keypresses are still buffered - then requests until nothing comes any more."""
    import curtsies.input as cinput
    from curtsies import events as cevents
    orig = cinput.getpreferredencoding
    cinput.getpreferredencoding = lambda: pyenc(enc)
    keys, exc = [], ""

    def take(inp):
        k = inp.send(0)
        if k is not None:
            cap = sum(len(x) for x in items) + 6
            for x in (k.events if isinstance(k, cevents.PasteEvent) else [k])[:cap]:
                if len(keys) < cap:
                    keys.append(list(x) if isinstance(x, bytes) else _unname(x, mode, enc))
        return k
    term = _Pty() if ctx else None
    try:
        inp = cinput.Input(in_stream=term if ctx else pipe, keynames=tables.modes[mode], sigint_event=bool(sigint))
        pos = 0
        k = 0
        while pos < len(items):
            n = pieces[k % len(pieces)]
            k += 1
            inp.unget_bytes(b"".join(items[pos:pos + n]))
            pos += n
            if ctx:
                # the Input's context is entered for this request only and left again (an application that goes off
                # to an editor and comes back): keypresses still buffered stay buffered across the boundary
                with inp:
                    take(inp)
            else:
                take(inp)
        if ctx:
            inp.__enter__()
        try:
            for _ in range(len(items) + 5):
                if take(inp) is None:
                    break
        finally:
            if ctx:
                inp.__exit__(None, None, None)
    except Exception as e:  # noqa
        exc = type(e).__name__
    finally:
        if term is not None:
            term.close()
        cinput.getpreferredencoding = orig
    return {"keys": keys, "exc": exc}


def _unname(x, mode, enc):
    """a keypress handed back under a str naming mode, as the bytes it stands for: the table sequence with that name, or
    the characters encoded (bytes naming: anything that is not bytes is recorded as [-1])"""
    if mode == "bytes" or not isinstance(x, str):
        return [-1]
    from curtsies import events as cevents
    table = cevents.CURTSIES_NAMES if mode == "curtsies" else cevents.CURSES_NAMES
    for seq, name in table.items():
        if name == x:
            return list(seq)
    try:
        return list(x.encode(pyenc(enc)))
    except Exception:  # noqa
        return [-1]


def run_pipe(tables, items, enc, pipe, highfd=False, sigint=False, mode="bytes"):
    """End to end: the keypresses `items` (byte strings) are written to the pipe an Input (bytes naming, paste
    detection on) reads from - all of them have arrived before the first request - and requests with timeout 0
    are made until nothing comes any more.  Returns the keys handed back (pastes flattened) and what was raised."""
    import curtsies.input as cinput
    from curtsies import events as cevents
    data = b"".join(items)
    orig = cinput.getpreferredencoding
    cinput.getpreferredencoding = lambda: pyenc(enc)
    keys, exc = [], ""
    try:
        os.write(pipe.w, data)
        stream = _HighFd(pipe.r) if highfd else pipe      # the same pipe under a descriptor number above 256
        inp = cinput.Input(in_stream=stream, keynames=tables.modes[mode], sigint_event=bool(sigint))
        quiet = 0
        for _ in range(len(data) + 10):
            try:
                k = inp.send(0)
            except Exception as e:  # noqa
                exc = type(e).__name__
                break
            if k is None:
                quiet += 1
                if quiet >= 2:
                    break
                continue
            quiet = 0
            for x in (k.events if isinstance(k, cevents.PasteEvent) else [k])[:len(data) + 6]:
                keys.append(list(x) if isinstance(x, bytes) else _unname(x, mode, enc))
            if len(keys) > len(data) + 5:
                # more keypresses than bytes were written: recorded up to here (the verdict fails on them), no need to go on
                del keys[len(data) + 5:]
                break
    finally:
        cinput.getpreferredencoding = orig
        if highfd:
            try:
                os.close(stream.fd)
            except Exception:  # noqa
                pass
        import fcntl                      # drain what was not read so that the next case starts clean
        fl = fcntl.fcntl(pipe.r, fcntl.F_GETFL)
        fcntl.fcntl(pipe.r, fcntl.F_SETFL, fl | os.O_NONBLOCK)
        try:
            while os.read(pipe.r, 65536):
                pass
        except BlockingIOError:
            pass
        fcntl.fcntl(pipe.r, fcntl.F_SETFL, fl)
    return {"keys": keys, "exc": exc}

"""C06 - indexing, slicing, +, * and join act like str and carry formatting along."""
import fmtlib
from fmtlib import layouts, vlen
from purecheck import PureCheck


def S(text):
    return {"k": "s", "v": [[list(text), [0] * 8]]}


def F(runs):
    return {"k": "f", "v": runs}


class C06(PureCheck):
    pid = "C06"
    subst_every = 6
    warm_every = 3
    rule = ("Layouts(R,L) = every run list of <=R runs of length 0..L over {a,b} x {plain, red, bold+on_blue} "
            "(empty runs and the run-less value included); every slice bound pair in [-len-2,len+2] u {None}, every "
            "integer index in the same range, every operand pair of a layout pool for + (FmtStr+FmtStr, FmtStr+str, "
            "str+FmtStr), repeat counts 0..3, joins of <=3 items (separators of one run and of several runs sharing nothing / something); quick: R=2,L=2 complete + sampled R=3; thorough: R=3,L=2 "
            "complete. distinct_nontrivial = distinct (op, run-length profile, bounds/result class) with a multi-run "
            "or formatted operand")
    exhaustive = {"quick": False, "thorough": True}

    def design_runs(self, tier):
        cfg = ("SPECIFICATION Spec\nCONSTANT MaxRuns = %d\nCONSTANT MaxLen = 2\nCONSTANT Ops = {\"slice\",\"index\",\"mul\",\"add\",\"join\"}\n"
               "INVARIANT ImplRefinesAbs\nCHECK_DEADLOCK FALSE\n" % (2 if tier == "quick" else 3))
        return [dict(module="MC_Fmt", cfg=cfg, workers=12, timeout=3000)]

    def inputs(self, tier, rng):
        L2 = list(layouts(2, 2))
        if tier == "thorough":
            pool = list(layouts(3, 2))
        else:
            L3 = [l for l in layouts(3, 2) if len(l) == 3]
            pool = L2 + rng.sample(L3, 250)
        for f in pool:
            n = vlen(f)
            bounds = list(range(-n - 2, n + 3))
            for a in bounds + [None]:
                for b in bounds + [None]:
                    yield {"op": "slice", "f": f, "a": a or 0, "an": int(a is None), "b": b or 0, "bn": int(b is None)}
            for i in bounds:
                yield {"op": "index", "f": f, "i": i}
            for k in range(4):          # the quantifier is over non-negative counts (negative ones are C13's business)
                yield {"op": "mul", "f": f, "n": k}
        addpool = L2 if tier == "quick" else L2 + rng.sample(pool, 200)
        small = [l for l in L2 if vlen(l) <= 2]
        for x in (small if tier == "quick" else addpool[:300]):
            for y in (small if tier == "quick" else addpool[:300]):
                yield {"op": "add", "x": F(x), "y": F(y)}
        for x in addpool:
            for t in ([], [97], [98, 97], [27, 91, 51, 50, 109, 120], [155, 49, 109, 97], [27]):   # the last three: a plain str may hold ESC / CSI characters
                yield {"op": "add", "x": F(x), "y": S(t)}
                yield {"op": "add", "x": S(t), "y": F(x)}
                yield {"op": "add", "x": F(x), "y": S(t), "aug": 1}      # alias = x; alias += "..."
        for x in small:
            for y in small[::3]:
                yield {"op": "add", "x": F(x), "y": F(y), "aug": 1}
        seps = [l for l in L2 if len(l) <= 1 or vlen(l) <= 1][:40]
        # separators made of several runs: sharing nothing, sharing something, with an empty run, all plain
        seps += [l for l in L2 if len(l) == 2 and vlen(l) >= 2][::7][:40]
        seps += [[[[44], [2, 0, 0, 0, 0, 0, 0, 0]], [[32], [0] * 8]], [[[60], [2, 0, 0, 0, 0, 0, 0, 0]], [[62], [5, 0, 0, 0, 0, 0, 0, 0]]],
                 [[[45], [0] * 8], [[45], [0, 3, 0, 0, 0, 0, 0, 0]]], [[[44], [2, 0, 2, 0, 0, 0, 0, 0]], [[32], [2, 0, 0, 0, 0, 0, 0, 0]]],
                 [[[44], [0] * 8], [[32], [0] * 8]], [[[44], [2, 0, 0, 0, 0, 0, 0, 0]], [[], [0, 5, 0, 0, 0, 0, 0, 0]], [[32], [0] * 8]]]
        items_pool = [F(l) for l in small[:30]] + [S([]), S([97]), S([98, 98])]
        nj = 4000 if tier == "quick" else 60000
        for k in range(nj):
            sep = rng.choice(seps)
            items = [rng.choice(items_pool) for _ in range(rng.randrange(4))]
            yield {"op": "join", "sep": sep, "items": items, "it": k % 6}

    def execute(self, inp):
        return fmtlib.exec_op(inp)

    def classify(self, ev):
        op = ev["op"]
        f = ev.get("f") or (ev.get("x", {}).get("v", []) + ev.get("y", {}).get("v", [])) or ev.get("sep", [])
        prof = tuple((len(t), a[0], a[1]) for t, a in f)
        if len(f) < 2 and not any(a[0] or a[1] for _, a in f):
            return None
        extra = (ev.get("a"), ev.get("an"), ev.get("b"), ev.get("bn"), ev.get("i"), ev.get("n"), len(ev.get("items", [])))
        return (op, prof, extra)

    def case_class(self, ev, v):
        op = ev["op"]
        if op == "slice":
            neg = (not ev["an"] and ev["a"] < 0) or (not ev["bn"] and ev["b"] < 0)
            return "slice:" + ("negative-bound" if neg else "nonneg")
        if op == "index":
            n = vlen(ev["f"])
            i = ev["i"]
            return "index:" + ("negative" if i < 0 else "at-len" if i == n else "past-len" if i > n else "inrange")
        return op

    def describe(self, ev, v):
        d = {k: ev[k] for k in ev if k not in ("res",)}
        return f"{d} -> {ev['res']}"


CHECK = C06()
